// c16: correspondence + oracle for "each destination rule owns one outgoing connection, replaced /
// removed on command".  Drives the real rwc.Hub on top of a real agg.Hub; the destinations are
// in-process recording websocket servers (net/http/httptest + gorilla upgrader) that are up, down
// (refuse the upgrade) or drop the connection after k messages.  Histories: add / replace / re-add /
// delete / delete-all of rules over 3 ids, 3 streams, and after every operation one tagged broadcast
// per stream.  Observed: the hub's Rules and Clients tables, the connections open at the servers
// (per destination URL, one URL per rule version) and the URLs each tagged message arrived at.
//
// The histories run in child processes (several hubs in parallel in each) with a watchdog.
package main

import (
	"encoding/json"
	"fmt"
	"io/ioutil"
	"net"
	"net/http"
	"net/http/httptest"
	"os"
	"path/filepath"
	"regexp"
	"sort"
	"strings"
	"sync"
	"sync/atomic"
	"time"

	"github.com/gorilla/websocket"
	"github.com/practable/relay/internal/agg"
	"github.com/practable/relay/internal/hub"
	"github.com/practable/relay/internal/rwc"
	"github.com/practable/relay/verifharness/cmd/c15/childrun"
	"github.com/practable/relay/verifharness/lib"
	log "github.com/sirupsen/logrus"
)

const (
	nIDs     = 3
	nStreams = 3
	watchdog = 2 * time.Second
	settleBy = 2 * time.Second
)

type Op struct {
	K     string `json:"k"`               // Add Del DelAll B Stall Resume
	ID    int    `json:"id,omitempty"`    // number of the rule id (Case.IDNames), 0 = exactly the reserved word deleteAll
	S     int    `json:"s,omitempty"`     // stream 1..3
	Mode  string `json:"mode,omitempty"`  // up | down | drop<k> | stall
	U     int    `json:"u,omitempty"`     // number of the destination URL (one per rule version)
	Front string `json:"front,omitempty"` // host scenarios: the front end the operation goes through (rest | admin)
	File  string `json:"file,omitempty"`  // recording file of the rule: "" none, "ok" a writable file, "bad" a path that cannot be created
}

type Obs struct {
	Skip       bool     `json:"skip,omitempty"`        // nothing was observed after this operation (a wide table being filled)
	Tables     bool     `json:"tables,omitempty"`      // Rules / Clients / Members were read
	Strange    []string `json:"strange,omitempty"`     // listed ids that no rule of this history was added with (number 9999 in Rules)
	RulesOnly  bool     `json:"rules_only,omitempty"`  // host scenarios: only the rule listing is readable (Clients / Members are not)
	AdminRules [][3]int `json:"admin_rules,omitempty"` // host scenarios: the listing as the admin API gives it (Rules = the REST listing)
	Rules      [][3]int `json:"rules"`                 // id, stream, url - sorted by id
	Clients    [][2]int `json:"clients"`               // id, url - sorted by id
	Members    []int    `json:"members"`               // 10*url+stream of every client registered with the messages hub, sorted
	Open       []int    `json:"open"`                  // url, once per open connection, sorted
	Recv       []int    `json:"recv"`                  // urls the tagged broadcast of this op arrived at, sorted
}

type Case struct {
	Kind    string   `json:"kind"`
	Ops     []Op     `json:"ops"`
	Obs     []Obs    `json:"obs"`
	Panic   bool     `json:"panic"`
	Hang    bool     `json:"hang"`
	Stalled bool     `json:"stalled"` // connections did not settle within 2 s after op len(Obs)-1; history cut there
	Detail  string   `json:"detail,omitempty"`
	Retries int      `json:"retries,omitempty"`
	Hist    int      `json:"hist,omitempty"`     // number used in the destination paths of this run (diagnostics)
	IDNames []string `json:"id_names,omitempty"` // IDNames[i]: the id string of id number i (default r<i>); index 0 unused
	Quiet   int      `json:"quiet,omitempty"`    // the first Quiet operations fill the rule table: not observed, no probes
	EmptyID int      `json:"empty_id,omitempty"` // the id number whose id string is empty (0 = none)
}

func (c *Case) idn(i int) string {
	if i == 0 {
		return "deleteAll"
	}
	if i < len(c.IDNames) && c.IDNames[i] != "" {
		return c.IDNames[i]
	}
	if i < len(c.IDNames) && c.EmptyID == i {
		return ""
	}
	return fmt.Sprintf("r%d", i)
}

// idnum maps an id found in the hub's tables back to its number; exactly "deleteAll" is 0
func (c *Case) idnum(s string) int {
	if s == "deleteAll" {
		return 0
	}
	for i := 1; i < len(c.IDNames); i++ {
		if c.idn(i) == s {
			return i
		}
	}
	var i int
	if _, err := fmt.Sscanf(s, "r%d", &i); err == nil && i >= 1 && c.idn(i) == s {
		return i
	}
	return 9999
}

var streamNames = []string{"", "stream/a", "stream/b", "data"}
var streamTopic = []string{"", "fa", "fb", "data"} // where a broadcast "on the stream" is sent

func streamNumber(s string) int {
	for i := 1; i <= nStreams; i++ {
		if streamNames[i] == s {
			return i
		}
	}
	return 99
}

// ---------------------------------------------------------------- recording destinations
type connRec struct {
	open bool
	msgs []string
}
type pathRec struct {
	conns    []*connRec
	attempts int
}

var reg = struct {
	sync.Mutex
	m map[int]map[string]*pathRec // history -> path -> record
}{m: map[int]map[string]*pathRec{}}

var upgrader = websocket.Upgrader{CheckOrigin: func(r *http.Request) bool { return true }}

// a destination in mode "stall" stays connected but does not read before stallUntil[path]
var stallUntil = struct {
	sync.Mutex
	m map[string]time.Time
}{m: map[string]time.Time{}}

func setStall(path string, until time.Time) {
	stallUntil.Lock()
	stallUntil.m[path] = until
	stallUntil.Unlock()
}
func stalledUntil(path string) time.Time {
	stallUntil.Lock()
	defer stallUntil.Unlock()
	return stallUntil.m[path]
}

const (
	stallFor     = 2600 * time.Millisecond // the destination does not read for this long
	stallObserve = 1900 * time.Millisecond // connections are observed this long into the stall
	floodFrames  = 96
	floodSize    = 128 * 1024
)

var server *httptest.Server
var histCounter int64

func pathOf(hist int, mode string, u int) string { return fmt.Sprintf("/h%d/%s/u%d", hist, mode, u) }

func parsePath(p string) (hist int, mode string, u int, ok bool) {
	parts := strings.Split(strings.TrimPrefix(p, "/"), "/")
	if len(parts) != 3 {
		return
	}
	if _, err := fmt.Sscanf(parts[0], "h%d", &hist); err != nil {
		return
	}
	mode = parts[1]
	if _, err := fmt.Sscanf(parts[2], "u%d", &u); err != nil {
		return
	}
	ok = true
	return
}

// destURL builds the destination string of a rule version. Modes bad-* are strings the reconnecting
// client can never dial: wrong scheme, user:password, empty - and strings that do not even parse as a
// url (blank in the host, bad %-escape, non-numeric port, missing ']').
func destURL(base string, hist int, mode string, u int) string {
	path := pathOf(hist, mode, u)
	switch mode {
	case "bad-scheme":
		return "https" + strings.TrimPrefix(base, "ws") + path
	case "bad-user":
		return "ws://user:secret@" + strings.TrimPrefix(base, "ws://") + path
	case "bad-space":
		return "wss://relay.example .org" + path
	case "bad-escape":
		return base + path + "%zz"
	case "bad-port":
		return "wss://relay.example.org:port" + path
	case "bad-bracket":
		return "wss://[::1" + path
	case "bad-empty":
		return ""
	}
	return base + path
}

var badModes = []string{"bad-scheme", "bad-user", "bad-space", "bad-escape", "bad-port", "bad-bracket", "bad-empty"}

// noConn: a destination of this mode never has a connection
func noConn(mode string) bool { return mode == "down" || strings.HasPrefix(mode, "bad") }

// parseURL maps a destination URL of this process back to (hist, mode, u).
func parseURL(s string) (int, string, int, bool) {
	i := strings.Index(s, "/h")
	if i < 0 {
		return 0, "", 0, false
	}
	return parsePath(s[i:])
}

func handler(w http.ResponseWriter, r *http.Request) {
	hh, mode, _, ok := parsePath(r.URL.Path)
	if !ok {
		http.Error(w, "unknown", 404)
		return
	}
	reg.Lock()
	if reg.m[hh] == nil {
		reg.m[hh] = map[string]*pathRec{}
	}
	pr := reg.m[hh][r.URL.Path]
	if pr == nil {
		pr = &pathRec{}
		reg.m[hh][r.URL.Path] = pr
	}
	pr.attempts++
	reg.Unlock()
	if mode == "down" {
		http.Error(w, "down", 503)
		return
	}
	dropAfter := 0
	fmt.Sscanf(mode, "drop%d", &dropAfter)
	conn, err := upgrader.Upgrade(w, r, nil)
	if err != nil {
		return
	}
	tc, _ := conn.UnderlyingConn().(*net.TCPConn)
	if mode == "stall" && tc != nil {
		// a modest receive buffer (the default grows to tens of MB on loopback), so that the sender's
		// writes block a few MB after we stop reading; not tiny, or draining takes seconds
		tc.SetReadBuffer(64 * 1024)
	}
	cr := &connRec{open: true}
	reg.Lock()
	pr.conns = append(pr.conns, cr)
	reg.Unlock()
	// a destination that talks: it sends frames of its own all the time and never hangs up - it
	// neither answers a close frame nor closes; the connection ends when its writes start failing
	talkDone := make(chan struct{})
	if mode == "talk" {
		conn.SetCloseHandler(func(int, string) error { return nil })
		go func() {
			defer close(talkDone)
			for k := 0; ; k++ {
				if err := conn.WriteMessage(websocket.TextMessage, []byte(fmt.Sprintf("talk%d", k))); err != nil {
					return
				}
				time.Sleep(4 * time.Millisecond)
			}
		}()
	}
	n := 0
	for {
		if mode == "stall" {
			for time.Now().Before(stalledUntil(r.URL.Path)) {
				time.Sleep(5 * time.Millisecond)
			}
		}
		_, data, err := conn.ReadMessage()
		if err != nil {
			break
		}
		n++
		if k := strings.IndexByte(string(data[:minInt(len(data), 64)]), '|'); k >= 0 {
			data = data[:k] // large frames carry their tag before a '|'
		}
		reg.Lock()
		cr.msgs = append(cr.msgs, string(data))
		if dropAfter > 0 && n >= dropAfter {
			cr.open = false // same critical section: a recorded k-th message means "closed"
		}
		reg.Unlock()
		if dropAfter > 0 && n >= dropAfter {
			break
		}
	}
	if mode == "talk" {
		<-talkDone // not before the peer has really gone
	}
	reg.Lock()
	cr.open = false
	reg.Unlock()
	conn.Close()
}

func minInt(a, b int) int {
	if a < b {
		return a
	}
	return b
}

type snap struct {
	total map[int]int             // url -> connections ever accepted
	open  map[int]int             // url -> open connections
	msgs  map[int]map[string]bool // url -> tags received
}

func snapshot(hist int) snap {
	s := snap{total: map[int]int{}, open: map[int]int{}, msgs: map[int]map[string]bool{}}
	reg.Lock()
	for p, pr := range reg.m[hist] {
		_, _, u, _ := parsePath(p)
		s.total[u] += len(pr.conns)
		for _, c := range pr.conns {
			if c.open {
				s.open[u]++
			}
			for _, m := range c.msgs {
				if s.msgs[u] == nil {
					s.msgs[u] = map[string]bool{}
				}
				s.msgs[u][m] = true
			}
		}
	}
	reg.Unlock()
	return s
}

// ---------------------------------------------------------------- running a history on the real hubs
type runner struct {
	hist   int
	mh     *agg.Hub
	h      *rwc.Hub
	dead   chan struct{}
	pval   interface{}
	timer  *time.Timer
	dummy  *hub.Client
	failed string
	emptyU int // the url number of the rule version whose destination is the empty string (0 = none)
}

// parse maps a destination string found in the hub's tables back to (hist, mode, u)
func (r *runner) parse(s string) (int, string, int, bool) {
	if s == "" && r.emptyU > 0 {
		return r.hist, "bad-empty", r.emptyU, true
	}
	return parseURL(s)
}

func (r *runner) guard(f func()) {
	defer func() {
		if v := recover(); v != nil {
			r.pval = v
			select {
			case <-r.dead:
			default:
				close(r.dead)
			}
		}
	}()
	f()
}

func (r *runner) do(send func(dead <-chan struct{}, to <-chan time.Time) bool) bool {
	if r.failed != "" {
		return false
	}
	if !r.timer.Stop() {
		select {
		case <-r.timer.C:
		default:
		}
	}
	r.timer.Reset(watchdog)
	if send(r.dead, r.timer.C) {
		return true
	}
	select {
	case <-r.dead:
		r.failed = "panic"
	default:
		r.failed = "hang"
	}
	return false
}

func (r *runner) add(rule rwc.Rule) bool {
	return r.do(func(d <-chan struct{}, t <-chan time.Time) bool {
		select {
		case r.h.Add <- rule:
			return true
		case <-d:
		case <-t:
		}
		return false
	})
}

func (r *runner) del(id string) bool {
	return r.do(func(d <-chan struct{}, t <-chan time.Time) bool {
		select {
		case r.h.Delete <- id:
			return true
		case <-d:
		case <-t:
		}
		return false
	})
}

func (r *runner) aggUnregister(c *hub.Client) bool {
	return r.do(func(d <-chan struct{}, t <-chan time.Time) bool {
		select {
		case r.mh.Unregister <- c:
			return true
		case <-d:
		case <-t:
		}
		return false
	})
}

// barrier: the rwc hub has finished the previous operation when it takes the next value from its
// (unbuffered) channel; a rule with the reserved id is taken and ignored without touching any table.
// Then two no-op round trips through the messages hub, as in c15.
func (r *runner) barrier() bool {
	return r.add(rwc.Rule{ID: "deleteAll"}) && r.aggUnregister(r.dummy) && r.aggUnregister(r.dummy)
}

// live reads the rwc hub's client table (the hub goroutine is idle after the barrier).
func (r *runner) live() map[int]string {
	m, _ := r.liveCount()
	return m
}

// liveCount: destination url -> mode, and how many clients of the hub's table point at it (two rule ids
// may name the same destination)
func (r *runner) liveCount() (map[int]string, map[int]int) {
	m, n := map[int]string{}, map[int]int{}
	for _, c := range r.h.Clients {
		if hist, mode, u, ok := r.parse(c.Messages.Name); ok && hist == r.hist {
			m[u] = mode
			n[u]++
		}
	}
	return m, n
}

// settle waits until the connections at the servers are what the hub's own client table asks for.
// That table only paces the wait - the verdict is the oracle's, from the history alone.
func (r *runner) settle(newU, atLeast int) bool {
	deadline := time.Now().Add(settleBy)
	live, cnt := r.liveCount()
	for {
		s := snapshot(r.hist)
		ok, soft := true, true
		for u, mode := range live {
			if !noConn(mode) && s.open[u] != cnt[u] {
				ok = false
			}
			// a rule just (re-)added normally makes a connection of its own: one that was open
			// before belongs to the client it replaced and is on its way out. Waited for, but a
			// hub that keeps the old connection is not wrong for that alone.
			if !noConn(mode) && u == newU && s.total[u] < atLeast {
				soft = false
			}
		}
		for u, n := range s.open {
			if _, isLive := live[u]; !isLive && n > 0 {
				ok = false
			}
		}
		if ok && soft {
			return true
		}
		if time.Now().After(deadline) {
			return ok
		}
		time.Sleep(200 * time.Microsecond)
	}
}

// flood broadcasts large frames on the stream for a destination that has just stopped reading.
func (r *runner) flood(s int, idx int) bool {
	topic := streamTopic[s]
	pad := make([]byte, floodSize)
	for j := 0; j < floodFrames; j++ {
		data := append([]byte(tag(r.hist, idx, j)+"|"), pad...)
		msg := hub.Message{Data: data, Sender: hub.Client{Name: "probe", Topic: topic}, Sent: time.Now(), Type: websocket.BinaryMessage}
		ok := r.do(func(d <-chan struct{}, t <-chan time.Time) bool {
			select {
			case r.mh.Broadcast <- msg:
				return true
			case <-d:
			case <-t:
			}
			return false
		})
		if !ok {
			return false
		}
		time.Sleep(2 * time.Millisecond)
	}
	return true
}

func tag(hist, idx, attempt int) string { return fmt.Sprintf("h%dp%da%d", hist, idx, attempt) }

func (r *runner) probe(c *Case, s int, idx int) bool {
	wait := 20 * time.Millisecond
	topic := streamTopic[s]
	for attempt := 0; attempt < 6; attempt++ {
		tg := tag(r.hist, idx, attempt)
		msg := hub.Message{Data: []byte(tg), Sender: hub.Client{Name: "probe", Topic: topic}, Sent: time.Now(), Type: websocket.TextMessage}
		ok := r.do(func(d <-chan struct{}, t <-chan time.Time) bool {
			select {
			case r.mh.Broadcast <- msg:
				return true
			case <-d:
			case <-t:
			}
			return false
		})
		if !ok || !r.aggUnregister(r.dummy) || !r.aggUnregister(r.dummy) {
			return false
		}
		want, also := []int{}, []int{}
		live := r.live()
		for m := range r.mh.Hub.Clients[topic] {
			if hist, mode, u, ok := r.parse(m.Name); ok && hist == r.hist {
				if _, isLive := live[u]; !isLive {
					continue // a registration the rwc hub no longer owns: nothing to wait for
				}
				if mode == "up" {
					want = append(want, u)
				} else if !noConn(mode) {
					also = append(also, u) // waited for, but never a reason to repeat the broadcast
				}
			}
		}
		deadline := time.Now().Add(wait)
		all := false
		for {
			sn := snapshot(r.hist)
			all = true
			rest := true
			for _, u := range want {
				if !sn.msgs[u][tg] {
					all = false
				}
			}
			for _, u := range also {
				if !sn.msgs[u][tg] {
					rest = false
				}
			}
			if (all && rest) || time.Now().After(deadline) {
				break
			}
			time.Sleep(200 * time.Microsecond)
		}
		if all {
			return true
		}
		c.Retries++
		wait *= 2
	}
	c.Stalled = true // a destination that is up and registered never got the message: cut the history here
	return true
}

func runHistory(c *Case) {
	log.SetOutput(ioutil.Discard)
	if f := os.Getenv("C16_LOG"); f != "" {
		if w, err := os.OpenFile(f, os.O_CREATE|os.O_APPEND|os.O_WRONLY, 0o644); err == nil {
			log.SetOutput(w)
			log.SetLevel(log.TraceLevel)
			log.SetFormatter(&log.TextFormatter{FullTimestamp: true, TimestampFormat: "15:04:05.000000"})
		}
	}
	hist := int(atomic.AddInt64(&histCounter, 1))
	r := &runner{hist: hist, mh: agg.New(), dead: make(chan struct{}), timer: time.NewTimer(watchdog)}
	r.h = rwc.New(r.mh)
	closed := make(chan struct{})
	go r.guard(func() { r.mh.Run(closed) })
	go r.guard(func() { r.h.Run(closed) })
	r.dummy = &hub.Client{Hub: r.mh.Hub, Name: "barrier", Topic: "zz-barrier", Send: make(chan hub.Message, 1), Stats: hub.NewClientStats()}
	base := "ws" + strings.TrimPrefix(server.URL, "http")
	c.Obs, c.Panic, c.Hang, c.Stalled, c.Detail, c.Retries = nil, false, false, false, "", 0
	c.Hist = hist

	// the two aggregated streams of the host: stream/a <- fa, stream/b <- fb
	for s := 1; s <= 2; s++ {
		rule := agg.Rule{Stream: streamNames[s], Feeds: []string{streamTopic[s]}}
		r.do(func(d <-chan struct{}, t <-chan time.Time) bool {
			select {
			case r.mh.Add <- rule:
				return true
			case <-d:
			case <-t:
			}
			return false
		})
	}

	n := 0
	recFiles := []string{}
	defer func() {
		for _, f := range recFiles {
			os.Remove(f)
		}
	}()
	stallEnd := time.Now()
	for i := 0; i < len(c.Ops); i++ {
		o := c.Ops[i]
		ok := true
		newU, atLeast := -1, 0
		switch o.K {
		case "Add":
			if o.ID != 0 {
				newU, atLeast = o.U, snapshot(hist).total[o.U]+1
			}
			file := ""
			switch o.File {
			case "ok":
				file = filepath.Join(os.TempDir(), fmt.Sprintf("c16-%d-h%d-u%d.rec", os.Getpid(), hist, o.U))
				recFiles = append(recFiles, file)
			case "bad":
				file = fmt.Sprintf("/nonexistent-dir-c16/h%d-u%d.rec", hist, o.U)
			}
			if o.Mode == "bad-empty" {
				r.emptyU = o.U
			}
			ok = r.add(rwc.Rule{ID: c.idn(o.ID), Stream: streamNames[o.S], Destination: destURL(base, hist, o.Mode, o.U), File: file})
		case "Del":
			ok = r.del(c.idn(o.ID))
		case "DelAll":
			ok = r.del("deleteAll")
		case "B":
			ok = r.probe(c, o.S, i)
		case "Stall":
			// the destination stops reading; large frames fill the socket buffers; the connections
			// are observed well into the stall (no settling: nothing should change)
			t0 := time.Now()
			stallEnd = t0.Add(stallFor)
			setStall(pathOf(hist, o.Mode, o.U), stallEnd)
			ok = r.flood(o.S, i)
			if d := time.Until(t0.Add(stallObserve)); d > 0 {
				time.Sleep(d)
			}
		case "Resume":
			if d := time.Until(stallEnd.Add(50 * time.Millisecond)); d > 0 {
				time.Sleep(d)
			}
		}
		if ok && i < c.Quiet {
			// a wide table being filled: the operation is handed over, nothing is awaited or read
			c.Obs = append(c.Obs, Obs{Skip: true, Rules: [][3]int{}, Clients: [][2]int{}, Members: []int{}, Open: []int{}, Recv: []int{}})
			n++
			continue
		}
		if !ok || !r.barrier() {
			break
		}
		settled := true
		if o.K != "Stall" {
			settled = r.settle(newU, atLeast)
		}
		ob := Obs{Rules: [][3]int{}, Clients: [][2]int{}, Members: []int{}, Open: []int{}, Recv: []int{}}
		// in a wide history the tables are read after the rule operations only (they do not change in between)
		ob.Tables = c.Quiet == 0 || o.K != "B"
		for id, ru := range r.h.Rules {
			if !ob.Tables {
				break
			}
			u := 9999
			if hh, _, uu, ok := r.parse(ru.Destination); ok && hh == hist {
				u = uu
			}
			ob.Rules = append(ob.Rules, [3]int{c.idnum(id), streamNumber(ru.Stream), u})
			if c.idnum(id) == 9999 && len(id) < 80 {
				ob.Strange = append(ob.Strange, id)
			}
			if c.idnum(ru.ID) != c.idnum(id) {
				ob.Rules[len(ob.Rules)-1][0] = 98 // stored under a key that is not its id
			}
		}
		sort.Slice(ob.Rules, func(a, b int) bool { return ob.Rules[a][0] < ob.Rules[b][0] })
		for id, cl := range r.h.Clients {
			if !ob.Tables {
				break
			}
			u := 9999
			if hh, _, uu, ok := r.parse(cl.Messages.Name); ok && hh == hist {
				u = uu
			}
			ob.Clients = append(ob.Clients, [2]int{c.idnum(id), u})
		}
		sort.Slice(ob.Clients, func(a, b int) bool { return ob.Clients[a][0] < ob.Clients[b][0] })
		for s, set := range []map[*hub.Client]bool{nil, r.mh.Streams["stream/a"], r.mh.Streams["stream/b"], r.mh.Hub.Clients["data"]} {
			for m := range set {
				if !ob.Tables {
					break
				}
				u := 999
				if hh, _, uu, ok := r.parse(m.Name); ok && hh == hist {
					u = uu
				}
				ob.Members = append(ob.Members, 10*u+s)
			}
		}
		sort.Ints(ob.Members)
		sn := snapshot(hist)
		for u, k := range sn.open {
			for j := 0; j < k; j++ {
				ob.Open = append(ob.Open, u)
			}
		}
		sort.Ints(ob.Open)
		c.Obs = append(c.Obs, ob)
		n++
		if !settled && c.Kind == "stall" && !c.Stalled {
			// keep going to the delete / replace that ends the scenario (without the probes in
			// between: each would wait 2 s again), so that "still open after delete" is seen too
			rest := []Op{}
			for _, p := range c.Ops[i+1:] {
				if p.K != "B" {
					rest = append(rest, p)
				}
			}
			c.Ops = append(append([]Op{}, c.Ops[:i+1]...), rest...)
			c.Stalled = true
			continue
		}
		if !settled {
			c.Stalled = true
		}
		if c.Stalled {
			break
		}
	}
	if r.failed == "" && !c.Stalled {
		time.Sleep(3 * time.Millisecond)
	}
	switch r.failed {
	case "panic":
		c.Panic = true
		c.Detail = fmt.Sprint(r.pval)
	case "hang":
		c.Hang = true
	}
	// attribute every message that arrived to the broadcast that carried it
	sn := snapshot(hist)
	for i := 0; i < n; i++ {
		if c.Ops[i].K != "B" && c.Ops[i].K != "Stall" {
			continue
		}
		prefix := fmt.Sprintf("h%dp%da", hist, i)
		for u, tags := range sn.msgs {
			for tg := range tags {
				if strings.HasPrefix(tg, prefix) {
					c.Obs[i].Recv = append(c.Obs[i].Recv, u)
					break
				}
			}
		}
		sort.Ints(c.Obs[i].Recv)
	}
	close(closed) // rwc.Run cancels every client on its way out
}

// ---------------------------------------------------------------- Coq emitters
func ns(xs []int) string {
	ss := make([]string, len(xs))
	for i, x := range xs {
		ss[i] = lib.N(uint64(x))
	}
	return lib.List(ss)
}

// reliable lists the destination URLs that are up (accept connections and keep them).
func (c Case) reliable() (rel []int) {
	seen := map[int]bool{}
	for _, o := range c.Ops {
		if o.K == "Add" && !seen[o.U] {
			seen[o.U] = true
			if o.Mode == "up" {
				rel = append(rel, o.U)
			}
		}
	}
	return
}

// an id is emitted with its NAME (bytes) and its number; the model decides whether it is the reserved word.
// The default names r<i> are emitted by number alone (rid i), which keeps wide cases small.
func (c *Case) idCoq(i int) string {
	name := c.idn(i)
	if name == fmt.Sprintf("r%d", i) {
		return lib.App("rid_plain", lib.N(uint64(i)))
	}
	return lib.App("id_of_name", lib.Str(name), lib.N(uint64(i)))
}

func (c Case) coq() string {
	ops := make([]string, len(c.Ops))
	for i, o := range c.Ops {
		switch o.K {
		case "Add":
			ops[i] = lib.App("Add", lib.App("mkrule", c.idCoq(o.ID), lib.N(uint64(o.S)), lib.N(uint64(o.U))))
		case "Del":
			ops[i] = lib.App("Delete", c.idCoq(o.ID))
		case "DelAll":
			ops[i] = "DeleteAll"
		case "B", "Stall":
			ops[i] = lib.App("Bcast", lib.N(uint64(o.S)))
		case "Resume":
			ops[i] = lib.App("Bcast", lib.N(0)) // no operation of the hub: a broadcast nobody subscribes to
		}
	}
	obs := make([]string, len(c.Obs))
	for i, b := range c.Obs {
		rs := make([]string, len(b.Rules))
		for j, x := range b.Rules {
			rs[j] = lib.Tuple(lib.N(uint64(x[0])), lib.N(uint64(x[1])), lib.N(uint64(x[2])))
		}
		cs := make([]string, len(b.Clients))
		for j, x := range b.Clients {
			cs[j] = lib.Tuple(lib.N(uint64(x[0])), lib.N(uint64(x[1])))
		}
		tables := lib.OptionOf(b.Tables, lib.Tuple(lib.List(rs), lib.OptionOf(!b.RulesOnly, lib.Tuple(lib.List(cs), ns(b.Members)))))
		obs[i] = lib.OptionOf(!b.Skip, lib.App("mkobs", tables, ns(b.Open), ns(b.Recv)))
	}
	return lib.Tuple(lib.List(ops), lib.List(obs), ns(c.reliable()))
}

// ---------------------------------------------------------------- generator
// idShapes gives the rule ids of a history odd shapes: near the reserved word, with slashes, spaces,
// escapes, non-ASCII, very long, empty.
func idShapes(r *lib.Rng, c *Case) {
	pool := []string{"/deleteAll", "deleteAll/", "deleteall", " deleteAll", "deleteAll ", "%2FdeleteAll", "DeleteAll", "//deleteAll",
		"admin", "apiRule", "r 1", "r\u00e8gle-\u03bb", strings.Repeat("x", 300), "/r1", "r1/", "/r2", "r3 ", "a/b", ""}
	c.IDNames = make([]string, nIDs+1)
	for i := 1; i <= nIDs; i++ {
		if r.Chance(2, 3) {
			k := r.Intn(len(pool))
			if pool[k] == "" {
				c.EmptyID = i
			}
			c.IDNames[i] = pool[k]
			pool = append(pool[:k], pool[k+1:]...)
		}
	}
}

// genWide: K rules r1..rK (nine in ten to destinations that refuse, so that they cost no connection),
// filled without observation; then a tail of replaces / new ids / deletes / re-adds, observed as usual.
func genWide(r *lib.Rng, K int) Case {
	c := Case{Kind: fmt.Sprintf("wide%d", K)}
	type cur struct {
		s, u int
		mode string
	}
	curr := map[int]cur{}
	nextU := 1
	add := func(id int, s int, mode string) {
		c.Ops = append(c.Ops, Op{K: "Add", ID: id, S: s, Mode: mode, U: nextU})
		curr[id] = cur{s, nextU, mode}
		nextU++
	}
	for id := 1; id <= K; id++ {
		mode := "down"
		if r.Chance(1, 10) || id <= 2 {
			mode = "up"
		}
		add(id, r.Range(1, nStreams), mode)
	}
	c.Quiet = len(c.Ops)
	probes := func() {
		for s := 1; s <= nStreams; s++ {
			c.Ops = append(c.Ops, Op{K: "B", S: s})
		}
	}
	c.Ops = append(c.Ops, Op{K: "Del", ID: K + 1000}) // an id that is not there: the first observation of the table
	probes()
	nextID := K + 1
	deleted := []int{}
	for i := 0; i < 8; i++ {
		switch x := r.Intn(100); {
		case x < 45:
			id := r.Range(1, K) // replace a rule that is there (or re-add one deleted in this tail)
			if r.Chance(1, 2) {
				id = r.Range(1, 2)
			}
			add(id, r.Range(1, nStreams), "up")
		case x < 65:
			add(nextID, r.Range(1, nStreams), "up") // one more id
			nextID++
		case x < 88 || len(deleted) == 0:
			id := r.Range(1, K)
			c.Ops = append(c.Ops, Op{K: "Del", ID: id})
			delete(curr, id)
			deleted = append(deleted, id)
		default:
			add(deleted[r.Intn(len(deleted))], r.Range(1, nStreams), "up")
		}
		probes()
	}
	return c
}

func genHistory(r *lib.Rng, kind string) Case {
	c := Case{Kind: kind}
	if r.Chance(2, 5) {
		idShapes(r, &c)
	}
	nops := r.Range(4, 14)
	if kind == "short" {
		nops = r.Range(2, 4)
	}
	type cur struct {
		s, u int
		mode string
	}
	curr := map[int]cur{}
	nextU := 1
	usedEmpty := false
	mode := func() string {
		switch x := r.Intn(100); {
		case x < 56:
			return "up"
		case x < 64:
			return "down"
		case x < 73:
			m := badModes[r.Intn(len(badModes))]
			if m == "bad-empty" {
				if usedEmpty {
					m = "bad-scheme"
				}
				usedEmpty = true
			}
			return m
		case x < 85:
			return "talk"
		default:
			return fmt.Sprintf("drop%d", r.Range(1, 3))
		}
	}
	for i := 0; i < nops; i++ {
		var o Op
		switch x := r.Intn(100); {
		case x < 60:
			id := r.Range(1, nIDs)
			if kind == "malformed" && r.Chance(1, 3) {
				id = 0
			}
			otherStream := func(s0 int) int { return (s0-1+r.Range(1, nStreams-1))%nStreams + 1 }
			cu, live := curr[id]
			fresh := false
			switch y := r.Intn(100); {
			case live && y < 12:
				// the same rule posted again
				o = Op{K: "Add", ID: id, S: cu.s, Mode: cu.mode, U: cu.u}
			case live && y < 40:
				// replace: same destination, another stream
				o = Op{K: "Add", ID: id, S: otherStream(cu.s), Mode: cu.mode, U: cu.u}
			case live && y < 62:
				// replace: another destination, same stream
				o = Op{K: "Add", ID: id, S: cu.s, Mode: mode(), U: nextU}
				nextU++
				fresh = true
			case live:
				// replace: another destination and another stream
				o = Op{K: "Add", ID: id, S: otherStream(cu.s), Mode: mode(), U: nextU}
				nextU++
				fresh = true
			default:
				o = Op{K: "Add", ID: id, S: r.Range(1, nStreams), Mode: mode(), U: nextU}
				nextU++
				fresh = true
			}
			// now and then the destination of ANOTHER rule id (then that destination has one connection
			// per rule naming it)
			if fresh && r.Chance(1, 10) { // only a destination number taken just now is given back
				for other, cu := range curr {
					if other != id && (cu.mode == "up" || cu.mode == "down") {
						nextU--
						o.U, o.Mode = cu.u, cu.mode
						break
					}
				}
			}
			// a recording file now and then: one that can be written, one that cannot even be created
			switch y := r.Intn(100); {
			case y < 8:
				o.File = "ok"
			case y < 16:
				o.File = "bad"
			}
			if id != 0 {
				curr[id] = cur{o.S, o.U, o.Mode}
			}
		case x < 85:
			id := r.Range(1, nIDs)
			if _, ok := curr[id]; !ok && kind != "malformed" {
				for j := 1; j <= nIDs; j++ {
					if _, ok := curr[j]; ok {
						id = j
						break
					}
				}
			}
			o = Op{K: "Del", ID: id}
			delete(curr, id)
		default:
			o = Op{K: "DelAll"}
			curr = map[int]cur{}
		}
		c.Ops = append(c.Ops, o)
		for s := 1; s <= nStreams; s++ {
			c.Ops = append(c.Ops, Op{K: "B", S: s})
		}
	}
	return c
}

// genStall: a rule whose destination stays connected but stops reading for 2.6 s while ~12 MB of
// large frames are broadcast on its stream, then reads again; another rule on an up destination; the
// history ends by deleting / replacing the stalled rule after it has resumed.
func genStall(r *lib.Rng) Case {
	c := Case{Kind: "stall"}
	probes := func() {
		for s := 1; s <= nStreams; s++ {
			c.Ops = append(c.Ops, Op{K: "B", S: s})
		}
	}
	s1 := r.Range(1, nStreams)
	s2 := r.Range(1, nStreams)
	c.Ops = append(c.Ops, Op{K: "Add", ID: 1, S: s1, Mode: "stall", U: 1})
	probes()
	c.Ops = append(c.Ops, Op{K: "Add", ID: 2, S: s2, Mode: "up", U: 2})
	probes()
	c.Ops = append(c.Ops, Op{K: "Stall", ID: 1, S: s1, Mode: "stall", U: 1})
	c.Ops = append(c.Ops, Op{K: "Resume", ID: 1, S: s1, Mode: "stall", U: 1})
	probes()
	switch r.Intn(3) {
	case 0:
		c.Ops = append(c.Ops, Op{K: "Del", ID: 1})
	case 1:
		c.Ops = append(c.Ops, Op{K: "DelAll"})
	default:
		c.Ops = append(c.Ops, Op{K: "Add", ID: 1, S: r.Range(1, nStreams), Mode: "up", U: 3})
	}
	probes()
	return c
}

// ---------------------------------------------------------------- the property's own oracle
func via(o Op) string {
	if o.Front == "" {
		return ""
	}
	return "[" + o.Front + "]"
}

func (c *Case) opString(o Op) string {
	switch o.K {
	case "Add":
		return fmt.Sprintf("Add%s %s %s ->u%d(%s)", via(o), c.idn(o.ID), streamNames[o.S], o.U, o.Mode)
	case "Del":
		return "Del" + via(o) + " " + c.idn(o.ID)
	case "DelAll":
		return "DelAll" + via(o)
	case "B":
		return "B " + streamNames[o.S]
	case "Stall":
		return fmt.Sprintf("Stall u%d (stops reading for %v, %d frames of %d KB on %s)", o.U, stallFor, floodFrames, floodSize/1024, streamNames[o.S])
	case "Resume":
		return fmt.Sprintf("Resume u%d", o.U)
	}
	return o.K
}

func oracle(c Case, idx int, res *lib.Result) {
	bad := func(clause, key, detail string) {
		res.Violate(lib.Violation{Clause: clause, Case: idx, Detail: detail, Replay: c, Key: clause + ":" + key})
	}
	type cur struct {
		s, u int
		mode string
	}
	curr := map[int]cur{}
	owner := map[int]int{}       // url -> rule id it was first created for (for the messages)
	users := func(u int) []int { // the ids whose current rule names url u
		ids := []int{}
		for id, cu := range curr {
			if cu.u == u {
				ids = append(ids, id)
			}
		}
		sort.Ints(ids)
		return ids
	}
	last := "start"
	hist := func(i int) string {
		hs := []string{}
		if c.Quiet > 0 && i >= c.Quiet {
			hs = append(hs, fmt.Sprintf("[%d rules added: %s .. %s]", c.Quiet, c.idn(1), c.idn(c.Quiet)))
		}
		for j, p := range c.Ops[:i+1] {
			if p.K != "B" && (j >= c.Quiet || i < c.Quiet) {
				hs = append(hs, c.opString(p))
			}
		}
		return strings.Join(hs, "; ")
	}
	if c.Panic && len(c.Obs) == 0 && strings.HasPrefix(c.Detail, "child process") {
		// the whole process running the code under test died while this history was executing alone
		m := regexp.MustCompile(`(panic: [^\n]*|fatal error: [^\n]*)`).FindString(c.Detail)
		bad("host-process-died", c.Kind, "the process running the hubs died during this history ("+m+"); history: "+hist(len(c.Ops)-1))
		return
	}
	for i, o := range c.Ops {
		if i >= len(c.Obs) {
			if c.Panic {
				bad("hub-panic", o.K+"-after-"+last, fmt.Sprintf("op %d (%s): %s; history: %s", i, c.opString(o), c.Detail, hist(i)))
			} else if c.Hang {
				bad("hub-hang", o.K+"-after-"+last, fmt.Sprintf("op %d (%s): the hub did not take the operation within 2 s; history: %s", i, c.opString(o), hist(i)))
			}
			return
		}
		switch o.K {
		case "Add":
			if c.idn(o.ID) != "deleteAll" { // the reserved word, exactly; every other string is an ordinary id
				curr[o.ID] = cur{o.S, o.U, o.Mode}
				if _, seen := owner[o.U]; !seen {
					owner[o.U] = o.ID
				}
			}
			last = "Add"
		case "Del":
			if c.idn(o.ID) == "deleteAll" {
				curr = map[int]cur{}
			} else {
				delete(curr, o.ID)
			}
			last = "Del"
		case "DelAll":
			curr = map[int]cur{}
			last = "DelAll"
		}
		ob := c.Obs[i]
		if ob.Skip {
			continue
		}
		if ob.Tables {
			// the listing equals the rules added and not since deleted; the reserved id is never there
			same := len(ob.Rules) == len(curr)
			for _, ru := range ob.Rules {
				if ru[0] == 0 {
					bad("reserved-id-created", o.K, fmt.Sprintf("op %d (%s): the rule listing holds a rule with id deleteAll; history: %s", i, c.opString(o), hist(i)))
				}
				cu, ok := curr[ru[0]]
				if !ok || cu.s != ru[1] || cu.u != ru[2] {
					same = false
				}
			}
			if !same {
				// name the entries that differ, not the whole listing
				diff := []string{}
				seen := map[int]bool{}
				for _, ru := range ob.Rules {
					seen[ru[0]] = true
					cu, ok := curr[ru[0]]
					switch {
					case ru[0] >= 98:
						diff = append(diff, fmt.Sprintf("an id that was never added is listed (-> u%d)", ru[2]))
					case !ok:
						diff = append(diff, fmt.Sprintf("%q is listed but was deleted / never added", c.idn(ru[0])))
					case cu.s != ru[1] || cu.u != ru[2]:
						diff = append(diff, fmt.Sprintf("%q listed as %s -> u%d, latest rule is %s -> u%d", c.idn(ru[0]), streamNames[ru[1]%4], ru[2], streamNames[cu.s], cu.u))
					}
				}
				for id, cu := range curr {
					if !seen[id] {
						diff = append(diff, fmt.Sprintf("%q (%s -> u%d) was added and is not listed", c.idn(id), streamNames[cu.s], cu.u))
					}
				}
				if len(ob.Strange) > 0 {
					diff = append(diff, fmt.Sprintf("ids listed that no rule was added with: %q", ob.Strange))
				}
				sort.Strings(diff)
				if len(diff) > 6 {
					diff = append(diff[:6], fmt.Sprintf("... %d more", len(diff)-6))
				}
				bad("listing-not-adds-minus-deletes", o.K, fmt.Sprintf("op %d (%s): %d rules listed, the history says %d: %s; history: %s", i, c.opString(o), len(ob.Rules), len(curr), strings.Join(diff, "; "), hist(i)))
			}
			// host scenarios: the admin API's listing must say the same
			if ob.RulesOnly && fmt.Sprint(ob.AdminRules) != fmt.Sprint(ob.Rules) {
				bad("front-ends-disagree", o.K+"-"+o.Front, fmt.Sprintf("op %d (%s): GET /api/destinations/all lists (id,stream,url) %v, the admin API lists %v; history: %s", i, c.opString(o), ob.Rules, ob.AdminRules, hist(i)))
			}
			// what is registered with the messages hub: one client per current rule, nothing else
			obsM := map[int]int{}
			for _, us := range ob.Members {
				u, ms := us/10, us%10
				obsM[u]++
				ids := users(u)
				streamOK := false
				for _, id := range ids {
					if curr[id].s == ms {
						streamOK = true
					}
				}
				switch {
				case len(ids) == 0 || obsM[u] > len(ids):
					bad("superseded-client-still-registered", "after-"+last,
						fmt.Sprintf("op %d (%s): a client for u%d (made for %s) is still registered with the messages hub although its rule was replaced or deleted (%d registered, %d current rules name that destination); history: %s", i, c.opString(o), u, c.idn(owner[u]), obsM[u], len(ids), hist(i)))
				case !streamOK:
					bad("client-registered-for-old-stream", "after-"+last,
						fmt.Sprintf("op %d (%s): the client of rule %s -> u%d is registered with the messages hub for %s, its latest rule names %s; history: %s", i, c.opString(o), c.idn(ids[0]), u, streamNames[ms%4], streamNames[curr[ids[0]].s], hist(i)))
				}
			}
			for id, cu := range curr {
				if !ob.RulesOnly && obsM[cu.u] < len(users(cu.u)) {
					bad("live-rule-not-registered", "after-"+last,
						fmt.Sprintf("op %d (%s): rule %s -> u%d has no client registered with the messages hub; history: %s", i, c.opString(o), c.idn(id), cu.u, hist(i)))
				}
			}
		}
		// at most one live connection per rule, and only to destinations of latest rules (two rule
		// ids may name the same destination: then it has one connection per rule)
		openN := map[int]int{}
		for _, u := range ob.Open {
			openN[u]++
		}
		for u, k := range openN {
			ids := users(u)
			switch {
			case len(ids) == 0:
				bad("superseded-destination-still-connected", "after-"+last,
					fmt.Sprintf("op %d (%s): a connection to u%d (made for %s) is still open after the hub settled (up to 2 s) although that rule was replaced or deleted; history: %s", i, c.opString(o), u, c.idn(owner[u]), hist(i)))
			case k > len(ids):
				bad("two-live-connections-for-one-id", "after-"+last,
					fmt.Sprintf("op %d (%s): %d connections open to u%d, which %d current rule(s) name (%s ..) (urls open: %v); history: %s", i, c.opString(o), k, u, len(ids), c.idn(ids[0]), ob.Open, hist(i)))
			}
		}
		for id, cu := range curr {
			if cu.mode != "up" {
				continue // a destination that drops connections is between connections every now and then
			}
			if openN[cu.u] < len(users(cu.u)) {
				bad("live-rule-not-connected", "after-"+last,
					fmt.Sprintf("op %d (%s): rule %s -> u%d (%s) has no open connection after 2 s (%d open, %d rules name it); history: %s", i, c.opString(o), c.idn(id), cu.u, cu.mode, openN[cu.u], len(users(cu.u)), hist(i)))
			}
		}
		if o.K == "B" || o.K == "Stall" {
			got := map[int]bool{}
			for _, u := range ob.Recv {
				got[u] = true
				ids := users(u)
				streamOK := false
				for _, id := range ids {
					if curr[id].s == o.S {
						streamOK = true
					}
				}
				switch {
				case len(ids) == 0:
					bad("traffic-to-superseded-destination", "after-"+last,
						fmt.Sprintf("op %d (%s): the message broadcast now reached u%d, whose rule (%s) had already been replaced or deleted; history: %s", i, c.opString(o), u, c.idn(owner[u]), hist(i)))
				case !streamOK:
					bad("traffic-from-wrong-stream", "after-"+last,
						fmt.Sprintf("op %d (%s): reached u%d, whose rule names %s; history: %s", i, c.opString(o), u, streamNames[curr[ids[0]].s], hist(i)))
				}
			}
			for id, cu := range curr {
				if cu.s == o.S && cu.mode == "up" && !got[cu.u] {
					bad("other-rule-stopped-flowing", "after-"+last,
						fmt.Sprintf("op %d (%s): live rule %s -> u%d (up) did not receive the broadcast; history: %s", i, c.opString(o), c.idn(id), cu.u, hist(i)))
				}
			}
		}
	}
	if c.Panic {
		bad("hub-panic", "end", c.Detail)
	}
}

// ---------------------------------------------------------------- main
func childJob(p json.RawMessage) json.RawMessage {
	var c Case
	if err := json.Unmarshal(p, &c); err != nil {
		panic(err)
	}
	if c.Kind == "host" {
		runHost(&c)
	} else {
		runHistory(&c)
	}
	b, _ := json.Marshal(c)
	return b
}

func main() {
	if childrun.IsChild("child") || childrun.IsChild("host") {
		log.SetOutput(ioutil.Discard)
		if l, err := log.ParseLevel(os.Getenv("VERIF_LOGLEVEL")); err == nil {
			log.SetLevel(l) // some runs at debug / trace: behaviour must not depend on it
		}
		server = httptest.NewServer(http.HandlerFunc(handler))
		childrun.Serve(childJob)
	}
	a := lib.ParseArgs()
	log.SetOutput(ioutil.Discard)
	res := lib.NewResult("C16", a.Seed, a.Tier)
	res.ShardSize = 50
	rng := lib.NewRng(a.Seed)

	var cases []Case
	if a.Replay != "" {
		var c Case
		lib.ReadReplayCase(a.Replay, &c)
		cases = []Case{c}
	} else {
		// the assembled host with both of its front ends
		for i := 0; i < a.Pick(6, 40); i++ {
			cases = append(cases, genHost(rng.Fork()))
		}
		// wide rule tables around the sizes where a bound might sit (1023 .. 1100 rules in the thorough tier only)
		wide := []int{8, 9, 63, 64, 65, 255, 256, 257}
		if a.Tier == "thorough" {
			wide = append(wide, 1023, 1024, 1025, 1100)
		}
		for _, K := range wide {
			cases = append(cases, genWide(rng.Fork(), K))
		}
		// the slow scenarios first, so that they overlap with the rest
		for i := 0; i < a.Pick(6, 40); i++ {
			cases = append(cases, genStall(rng.Fork()))
		}
		n := a.Pick(800, 8000)
		for i := 0; i < n; i++ {
			r := rng.Fork()
			kind := "valid"
			switch {
			case i%10 == 8:
				kind = "malformed"
			case i%10 == 9:
				kind = "short"
			}
			cases = append(cases, genHistory(r, kind))
		}
	}
	if err := os.MkdirAll(a.Out, 0o755); err != nil {
		fmt.Fprintln(os.Stderr, err)
		os.Exit(2)
	}
	payloads := make([]json.RawMessage, len(cases))
	for i, c := range cases {
		payloads[i], _ = json.Marshal(c)
	}
	// one run in three has the code under test log at debug, one at trace level (output discarded)
	os.Setenv("VERIF_LOGLEVEL", []string{"panic", "trace", "debug"}[int(a.Seed%3+3)%3])
	var hostIdx, hubIdx []int
	for i, c := range cases {
		if c.Kind == "host" {
			hostIdx = append(hostIdx, i)
		} else {
			hubIdx = append(hubIdx, i)
		}
	}
	pick := func(idx []int) []json.RawMessage {
		ps := make([]json.RawMessage, len(idx))
		for j, i := range idx {
			ps[j] = payloads[i]
		}
		return ps
	}
	outs := make([]childrun.Outcome, len(cases))
	var wg sync.WaitGroup
	wg.Add(2)
	go func() {
		defer wg.Done()
		// one vw.Stream() per process and delete-all in the histories: one history at a time
		for j, o := range childrun.RunAll("host", pick(hostIdx), 1, 60*time.Second, a.Out) {
			outs[hostIdx[j]] = o
		}
	}()
	go func() {
		defer wg.Done()
		for j, o := range childrun.RunAll("child", pick(hubIdx), 8, 60*time.Second, a.Out) {
			outs[hubIdx[j]] = o
		}
	}()
	wg.Wait()
	for i, o := range outs {
		if o.Result != nil {
			var c Case
			if err := json.Unmarshal(o.Result, &c); err == nil {
				cases[i] = c
				continue
			}
		}
		cases[i].Obs = nil
		cases[i].Panic = o.Crashed
		cases[i].Hang = o.Hung
		cases[i].Detail = "child process " + map[bool]string{true: "crashed", false: "froze"}[o.Crashed] + ": " + o.Log
	}

	coq := make([]string, len(cases))
	for i, c := range cases {
		oracle(c, i, res)
		coq[i] = c.coq()
		res.Count("kind:" + c.Kind)
		res.CountN("ops", len(c.Ops))
		res.CountN("probe-retries", c.Retries)
		if c.Panic {
			res.Count("outcome:panic")
		}
		if c.Hang {
			res.Count("outcome:hang")
		}
		if c.Stalled {
			res.Count("outcome:connections-did-not-settle")
		}
		have := map[int]bool{}
		prev := map[int][2]int{}
		for k, o := range c.Ops {
			res.Count("op:" + o.K)
			if o.K == "Add" {
				m := o.Mode
				if strings.HasPrefix(m, "drop") {
					m = "drop"
				}
				res.Count("dest:" + m)
				switch {
				case o.ID == 0:
					res.Count("add:reserved-id")
				case have[o.ID]:
					res.Count("add:replaces-live-rule")
					switch pv := prev[o.ID]; {
					case pv[0] == o.S && pv[1] == o.U:
						res.Count("replace:same-rule-again")
					case pv[1] == o.U:
						res.Count("replace:stream-only")
					case pv[0] == o.S:
						res.Count("replace:destination-only")
					default:
						res.Count("replace:both")
					}
				default:
					res.Count("add:new-id")
				}
				if o.ID != 0 {
					have[o.ID] = true
					prev[o.ID] = [2]int{o.S, o.U}
				}
			}
			if o.K == "Del" {
				if !have[o.ID] {
					res.Count("del:absent-id")
				}
				delete(have, o.ID)
			}
			if o.K == "DelAll" {
				have = map[int]bool{}
			}
			if o.K == "B" && k < len(c.Obs) {
				res.Count(fmt.Sprintf("probe-recipients:%d", len(c.Obs[k].Recv)))
			}
		}
		res.Sample(c)
		res.Cases = append(res.Cases, c)
	}
	res.Evaluations = len(cases)
	hdr := "From Relay Require Import Base.Prelude Base.AList Model.Rwc Corr.C16."
	if _, err := lib.WriteShards(a.Out, hdr, "case", coq, res.ShardSize); err != nil {
		fmt.Fprintln(os.Stderr, err)
		os.Exit(2)
	}
	if err := res.Write(a.Out); err != nil {
		fmt.Fprintln(os.Stderr, err)
		os.Exit(2)
	}
}
