package main

import (
	"fmt"
	"math"
	"time"

	"github.com/practable/relay/verifharness/lib"
)

// Step is what the servers do with one attempt.
type Step struct {
	A string `json:"a"` // access: ok down refuse hang 4xx 5xx garbage emptyuri
	W string `json:"w"` // websocket: down refuse 4xx 5xx garbage emptyuri accept acceptdropw acceptbad accepthang acceptstay hang
	K int    `json:"k"` // accept: messages each way before the drop
	// what else the HTTP reply carries (access replies and upgrade refusals), as a proxy in front of the relay
	// might add: ra-sec ra-big ra-neg ra-garbage ra-date close location chunked gzip early (and combinations
	// joined with +). The client has to behave exactly as without it, so this is not part of the model.
	H string `json:"h,omitempty"`
}

// Cancel says in which attempt and phase the context is cancelled.
type Cancel struct {
	I int    `json:"i"`
	P string `json:"p"` // wait access ws conn
	J int    `json:"j"` // conn: after j messages
}

type Obs struct {
	GapSS   int64 `json:"gap_ss"`
	GapES   int64 `json:"gap_es"`
	Timed   bool  `json:"timed"`
	Acc     bool  `json:"acc"`
	Ws      bool  `json:"ws"`
	Est     bool  `json:"est"`
	K       int   `json:"k"`
	In      []int `json:"in"`      // numbers of the server's messages in the order they arrived on r.In
	Ack     []int `json:"ack"`     // numbers of the client's messages in the order the server received them
	Garbled []int `json:"garbled"` // pkg/status run: numbers of the server's messages sent undecodable; bad-message run: the unwritable ones
	Later   []int `json:"later"`   // numbers of the busy sender's messages that arrived on later connections
	// cancel iteration only: the server saw the client's TCP connection end within 1 s of the cancellation
	Closed bool `json:"closed"`
}

// Trace is what the oracle works on (never sent to Coq): times are ns since launch.
type Trace struct {
	Start, End   []int64 // per attempt; End = -1 if unknown
	WsStart      []int64 // time of the websocket dial of the attempt, -1 if none
	CancelAt     int64   // -1: never
	Forced       bool    // the scripted trigger never fired and the harness cancelled at its deadline
	ReturnedAt   int64   // -1: did not return
	ConnClosedAt int64   // for a cancel while connected: when the server saw the connection end (-1 never)
	InSeq        [][]int // per attempt: sequence numbers that arrived on r.In
	AckSeq       [][]int // per attempt: sequence numbers of client messages the server received
	Lagged       []bool
	Malformed    []string // per attempt: why the strict front end refused its request ("" = well-formed)
	// long-lived connection: numbered messages the user handed to r.Out (time of hand-over) and the echoes on r.In
	SentAt  []int64
	EchoSeq []int
	Garbled []int // pkg/status run: numbers of the server's messages that were sent undecodable
}

type Case struct {
	Kind  string `json:"kind"`            // loop | boff | boffj
	Reuse string `json:"reuse,omitempty"` // the SAME client object is used for several rounds: reconws-plain reconws-auth client status
	Group int    `json:"group,omitempty"`
	Round int    `json:"round,omitempty"`
	Note  string `json:"note,omitempty"`
	Via   string `json:"via,omitempty"` // "client": driven through the public wrapper pkg/client (ReconnectAuth inside)
	// loop
	Loop     string `json:"loop,omitempty"` // plain | auth
	Min      int64  `json:"min"`
	Max      int64  `json:"max"`
	Factor   int64  `json:"factor"`
	Sched    []Step `json:"sched,omitempty"`
	Cancel   Cancel `json:"cancel"`
	Stay     int64  `json:"stay,omitempty"`   // acceptstay: how long the healthy connection is kept before the cancel (ns)
	BadAt    int    `json:"bad_at,omitempty"` // the BadAt-th numbered message of the user has WsMessage.Type 0 (cannot be written)
	Returned bool   `json:"returned"`
	Obs      []Obs  `json:"obs,omitempty"`
	Trace    *Trace `json:"trace,omitempty"`
	// boff
	Ops []int   `json:"ops,omitempty"` // 0 Duration, 1 Reset
	Ds  []int64 `json:"ds,omitempty"`
}

var accCoq = map[string]string{"ok": "AOk", "down": "ADown", "refuse": "ARefuse", "hang": "AHang", "4xx": "AHttp4xx",
	"5xx": "AHttp5xx", "garbage": "AGarbage", "emptyuri": "AEmptyUri"}
var wsCoq = map[string]string{"down": "Down", "refuse": "Refuse", "4xx": "Http4xx", "5xx": "Http5xx", "garbage": "Garbage",
	"emptyuri": "EmptyUri", "hang": "Hang"}

func (s Step) coq() string {
	w := wsCoq[s.W]
	if s.W == "accept" {
		w = lib.App("AcceptThenDrop", lib.Nat(s.K))
	}
	if s.W == "accepthang" {
		w = lib.App("AcceptThenHang", lib.Nat(s.K))
	}
	if s.W == "acceptdropw" {
		w = lib.App("AcceptThenDropW", lib.Nat(s.K))
	}
	if s.W == "acceptstay" {
		w = lib.App("AcceptThenStay", lib.Nat(s.K))
	}
	if s.W == "acceptbad" { // a healthy server; the USER hands over a message that cannot be written: the write loop fails
		w = lib.App("AcceptThenDropW", lib.Nat(s.K))
	}
	return lib.Tuple(accCoq[s.A], w)
}

func (c Case) cfg() string { return lib.App("mkcfg", lib.Z(c.Min), lib.Z(c.Max), lib.Z(c.Factor)) }

func nlist(xs []int) string {
	ss := make([]string, len(xs))
	for i, x := range xs {
		ss[i] = lib.N(uint64(x))
	}
	return lib.List(ss)
}

func (c Case) coq() string {
	if c.Kind == "boffj" {
		ds := make([]string, len(c.Ds))
		for i, d := range c.Ds {
			ds[i] = lib.Z(d)
		}
		return lib.App("CBoffJ", lib.Z(c.Min), lib.Z(c.Max), lib.List(ds))
	}
	if c.Kind == "boff" {
		ops := make([]string, len(c.Ops))
		for i, o := range c.Ops {
			ops[i] = "BDuration"
			if o == 1 {
				ops[i] = "BReset"
			}
		}
		ds := make([]string, len(c.Ds))
		for i, d := range c.Ds {
			ds[i] = lib.Z(d)
		}
		return lib.App("CBoff", c.cfg(), lib.List(ops), lib.List(ds))
	}
	l := "LPlain"
	if c.Loop == "auth" {
		l = "LAuth"
	}
	switch c.Via { // the users of the client: the MODEL says which loop they start
	case "rwc":
		l = lib.App("wrapper_choice", lib.Bool(c.Loop == "plain"))
	case "file":
		l = "file_choice"
	case "client", "status":
		l = "client_pkg_choice"
	}
	sch := make([]string, len(c.Sched))
	for i, s := range c.Sched {
		sch[i] = s.coq()
	}
	ph := map[string]string{"wait": "CWait", "access": "CAccess", "ws": "CWs"}[c.Cancel.P]
	if c.Cancel.P == "conn" {
		ph = lib.App("CConn", lib.Nat(c.Cancel.J))
	}
	cp := lib.App("Some", lib.Tuple(lib.Nat(c.Cancel.I), ph))
	obs := make([]string, len(c.Obs))
	for i, o := range c.Obs {
		obs[i] = lib.App("mkobs", lib.Z(o.GapSS), lib.Z(o.GapES), lib.Bool(o.Timed), lib.Bool(o.Acc), lib.Bool(o.Ws), lib.Bool(o.Est), lib.Nat(o.K), nlist(o.In), nlist(o.Ack), nlist(o.Later), nlist(o.Garbled), lib.Bool(o.Closed))
	}
	return lib.App("CLoop", l, c.cfg(), lib.List(sch), cp, lib.Bool(c.Returned), lib.List(obs))
}

const (
	ms      = int64(1000000)
	cfgMin  = 40 * ms
	cfgMax  = 320 * ms
	cfgFact = 2
)

// stepFails: does this scheduled attempt end without an established websocket?
func stepFails(loop string, s Step) bool {
	if loop == "auth" && s.A != "ok" {
		return true
	}
	return s.W != "accept" && s.W != "accepthang" && s.W != "acceptdropw" && s.W != "acceptstay" && s.W != "acceptbad"
}

// waitBefore is the generator's expectation of the wait in front of attempt i (used only to place
// the cancellation inside a wait and to size deadlines - never as the verdict).
func waitBefore(loop string, sched []Step, i int, min, max int64) int64 {
	j := 0
	for k := i - 1; k >= 0 && stepFails(loop, sched[k]); k-- {
		j++
	}
	if j == 0 {
		return 0
	}
	w := float64(min) * math.Pow(2, float64(j-1))
	if w > float64(max) {
		return max
	}
	return int64(w)
}

var accFail = []string{"down", "refuse", "4xx", "5xx", "garbage", "emptyuri"}
var wsFail = []string{"down", "refuse", "4xx", "5xx", "garbage", "emptyuri"}

var replyExtras = []string{"ra-sec", "ra-sec", "ra-big", "ra-neg", "ra-garbage", "ra-date", "close", "location", "chunked", "gzip", "early",
	"ra-sec+close", "ra-date+chunked", "ra-sec+location+gzip"}

func genStep(r *lib.Rng, loop string, pSuccess int) Step {
	s := genStep0(r, loop, pSuccess)
	if r.Chance(2, 5) {
		s.H = r.Pick(replyExtras)
	}
	return s
}

func genStep0(r *lib.Rng, loop string, pSuccess int) Step {
	s := Step{A: "ok", W: "accept", K: r.Range(0, 6)}
	if r.Chance(1, 6) {
		s.K = r.Range(8, 30) // a burst
	}
	if r.Intn(100) < pSuccess {
		return s
	}
	if loop == "auth" && r.Bool() {
		s.A = r.Pick(accFail)
		s.W = r.Pick(wsFail)
		return s
	}
	s.W = r.Pick(wsFail)
	return s
}

// genLoopCases: structured schedules (streaks that reach the cap, success in the middle, every failure
// kind) plus free random ones; each with a reachable cancellation point.
func genLoopCases(rng *lib.Rng, n int, thorough bool) []Case {
	var cs []Case
	// first the two kinds that need wall time or length rather than variety
	nOutage, stay := 2, 45*time.Second
	if thorough {
		nOutage, stay = 10, 150*time.Second
	}
	for i := 0; i < 2; i++ { // one long-lived healthy connection per loop kind
		cs = append(cs, genStayCase(rng.Fork(), []string{"plain", "auth"}[i], stay))
	}
	{ // the same through the public wrapper pkg/client (its own reconws.New(): Min 1 s, Max 10 s, Factor 2)
		c := genStayCase(rng.Fork(), "auth", stay)
		c.Via, c.Min, c.Max = "client", 1000*ms, 10000*ms
		c.Sched = []Step{{A: rng.Pick(accFail), W: "down"}, {A: "ok", W: "acceptstay"}}
		c.Cancel = Cancel{I: 1, P: "conn"}
		cs = append(cs, c)
	}
	{ // and through pkg/status (pkg/client inside): the server pushes numbered reports, every fifth undecodable
		c := genStayCase(rng.Fork(), "auth", stay)
		c.Via, c.Min, c.Max = "status", 1000*ms, 10000*ms
		c.Sched = []Step{{A: rng.Pick(accFail), W: "down"}, {A: "ok", W: "acceptstay"}}
		c.Cancel = Cancel{I: 1, P: "conn"}
		cs = append(cs, c)
	}
	for i, via := range []string{"", "client"} {
		// a healthy server and a user who hands over one message that cannot be written (Type 0, e.g. a
		// pkg/client.Message whose Type was never set): that message is lost, the write loop gives the connection
		// up, ONE new connection follows at once, everything else passes in order
		c := Case{Kind: "loop", Loop: []string{"plain", "auth"}[i], Via: via, Min: cfgMin, Max: cfgMax, Factor: cfgFact,
			Stay: int64(2500 * time.Millisecond), BadAt: 3 + i}
		if via == "client" {
			c.Min, c.Max = 1000*ms, 10000*ms
		}
		c.Sched = []Step{{A: "ok", W: "acceptbad"}, {A: "ok", W: "acceptstay"}}
		c.Cancel = Cancel{I: 1, P: "conn"}
		cs = append(cs, c)
	}
	cs = append(cs, genWrapperCases(rng.Fork(), map[bool]int{false: 2, true: 4}[thorough])...)
	for i := 0; i < nOutage; i++ { // long outages
		cs = append(cs, genOutageCase(rng.Fork(), []string{"plain", "auth"}[i%2]))
	}
	for i := 0; i < n; i++ {
		r := rng.Fork()
		loop := "plain"
		if i%2 == 1 {
			loop = "auth"
		}
		c := Case{Kind: "loop", Loop: loop, Min: cfgMin, Max: cfgMax, Factor: cfgFact}
		var sched []Step
		switch i % 12 {
		case 0, 1, 6: // long streak to the cap, a success, then failures again (reset)
			nf := r.Range(3, 5)
			for k := 0; k < nf; k++ {
				sched = append(sched, genStep(r, loop, 0))
			}
			sched = append(sched, genStep(r, loop, 100))
			for k := r.Range(2, 3); k > 0; k-- {
				sched = append(sched, genStep(r, loop, 0))
			}
		case 2, 3, 8, 9: // free mix
			for k := r.Range(3, 8); k > 0; k-- {
				sched = append(sched, genStep(r, loop, 30))
			}
		case 4: // mostly successes (accept then drop), with a failure here and there
			for k := r.Range(3, 7); k > 0; k-- {
				sched = append(sched, genStep(r, loop, 75))
			}
		case 5, 10: // refused handshakes until the backoff has grown, then a connection whose loss the WRITE loop
			// notices first (r.In not consumed, client sending all the time), then failures again
			fast := []string{"refuse", "4xx", "5xx", "garbage", "emptyuri", "down"}
			for k := r.Range(3, 4); k > 0; k-- {
				sched = append(sched, Step{A: "ok", W: r.Pick(fast)})
			}
			sched = append(sched, Step{A: "ok", W: "acceptdropw", K: 1})
			sched = append(sched, Step{A: "ok", W: "accept", K: r.Range(2, 5)}) // sees what the busy sender sends next, and in which order
			for k := r.Range(2, 3); k > 0; k-- {
				sched = append(sched, genStep(r, loop, 0))
			}
		default: // failures only
			for k := r.Range(3, 6); k > 0; k-- {
				sched = append(sched, genStep(r, loop, 0))
			}
		}
		// a slow failure now and then: the access POST that hangs until the client's own 10 s timeout
		// (quick tier: every 18th schedule), in thorough also the 45 s websocket handshake timeout
		if loop == "auth" && ((i%18 == 1) || (thorough && i%12 == 7)) {
			k := r.Intn(len(sched) - 1)
			sched[k] = Step{A: "hang", W: "down"}
		}
		if thorough && loop == "plain" && i%60 == 4 {
			k := r.Intn(len(sched) - 1)
			sched[k] = Step{A: "ok", W: "hang"}
		}
		// the cancellation: last scheduled attempt, in a phase that this attempt reaches
		ci := len(sched) - 1
		last := &sched[ci]
		var opts []Cancel
		if waitBefore(loop, sched, ci, c.Min, c.Max) >= 80*ms {
			opts = append(opts, Cancel{I: ci, P: "wait"}, Cancel{I: ci, P: "wait"})
		}
		if loop == "auth" {
			opts = append(opts, Cancel{I: ci, P: "access"})
		}
		if loop == "plain" || last.A == "ok" {
			switch last.W {
			case "accept":
				if last.K < 2 {
					last.K = r.Range(2, 9)
				}
				opts = append(opts, Cancel{I: ci, P: "conn", J: r.Range(1, last.K-1)}, Cancel{I: ci, P: "conn", J: r.Range(1, last.K-1)})
			case "down":
			default:
				opts = append(opts, Cancel{I: ci, P: "ws"})
			}
			if last.W != "accept" && i%12 == 3+(i/12)%2 { // cancel while the handshake hangs (in-flight attempt runs out 45 s)
				last.W = "hang"
				opts = []Cancel{{I: ci, P: "ws"}}
			}
		}
		if i%12 == 2 || i%12 == 11 {
			// the peer goes silent after k messages (keeps the TCP connection, answers nothing, not even the
			// close frame) and the context is cancelled while it hangs: the client must still close
			last.A, last.W, last.K = "ok", "accepthang", r.Range(0, 6)
			opts = []Cancel{{I: ci, P: "conn", J: last.K}}
		}
		if len(opts) == 0 { // e.g. plain, last = down, no wait due: make it a connection cancelled in use
			last.A, last.W, last.K = "ok", "accept", r.Range(2, 9)
			opts = append(opts, Cancel{I: ci, P: "conn", J: r.Range(1, last.K-1)})
		}
		c.Cancel = opts[r.Intn(len(opts))]
		if c.Cancel.P == "access" && r.Chance(1, 8) && i%18 == 1 {
			last.A = "hang" // cancelled while the POST hangs: the request is not context-aware, it runs out its 10 s
		}
		c.Sched = sched
		cs = append(cs, c)
	}
	return cs
}

// genStayCase: a couple of quick failures, then ONE connection to a healthy server that stays up for
// [stay]; the user sends a numbered message every ~300 ms and the server echoes it; then the cancel.
func genStayCase(r *lib.Rng, loop string, stay time.Duration) Case {
	c := Case{Kind: "loop", Loop: loop, Min: cfgMin, Max: cfgMax, Factor: cfgFact, Stay: int64(stay)}
	for k := r.Range(0, 2); k > 0; k-- {
		c.Sched = append(c.Sched, genStep(r, loop, 0))
	}
	c.Sched = append(c.Sched, Step{A: "ok", W: "acceptstay"})
	c.Cancel = Cancel{I: len(c.Sched) - 1, P: "conn"}
	return c
}

// genOutageCase: a long outage - 60 to 80 consecutive failed attempts of every kind - with a small Min
// (1-5 ms) and Max (40-80 ms), so that the run goes far beyond the point where Min*2^n leaves int64
// (n = 42..45) while costing a few seconds; cancelled in the last attempt.
func genOutageCase(r *lib.Rng, loop string) Case {
	c := Case{Kind: "loop", Loop: loop, Min: int64(r.Range(1, 5)) * ms, Max: int64(r.Range(40, 80)) * ms, Factor: cfgFact}
	for k := r.Range(60, 80); k > 0; k-- {
		c.Sched = append(c.Sched, genStep(r, loop, 0))
	}
	ci := len(c.Sched) - 1
	last := &c.Sched[ci]
	switch {
	case r.Bool():
		last.A, last.W, last.K = "ok", "accept", r.Range(2, 9)
		c.Cancel = Cancel{I: ci, P: "conn", J: r.Range(1, last.K-1)}
	case loop == "auth":
		c.Cancel = Cancel{I: ci, P: "access"}
	default:
		last.A, last.W = "ok", "refuse"
		c.Cancel = Cancel{I: ci, P: "ws"}
	}
	return c
}

// genBoffCase: random Min/Max (ordinary, tiny, huge beyond 2^53, zero/negative = defaults, Min >= Max),
// Factor 2 (or <= 0, which the library reads as 2), a random sequence of Duration()/Reset().
func genBoffCase(r *lib.Rng, i int) Case {
	pick := func() int64 {
		switch r.Intn(12) {
		case 0:
			return 0
		case 1:
			return -int64(r.Range(1, 1000000))
		case 2:
			return int64(r.Range(1, 1000)) // nanoseconds
		case 3:
			return int64(1)<<53 + int64(r.U64()%(1<<20)) - (1 << 19) // around the float64 precision edge
		case 4:
			return int64(r.U64() >> 1) // anything up to MaxInt64
		case 5:
			return int64(1)<<62 + int64(r.U64()%(1<<61))
		case 6, 7:
			return int64(r.Range(1, 5000)) * ms
		default:
			return int64(r.Range(1, 3600)) * 1000 * ms / int64(r.Range(1, 50))
		}
	}
	c := Case{Kind: "boff", Min: pick(), Max: pick(), Factor: 2}
	if r.Chance(2, 3) && c.Min > 0 && c.Max > 0 && c.Min > c.Max {
		c.Min, c.Max = c.Max, c.Min
	}
	if r.Chance(1, 10) {
		c.Factor = int64(-r.Intn(3)) // 0, -1, -2: "use the default of 2"
	}
	n := r.Range(8, 60)
	if i%25 == 0 {
		n = r.Range(1030, 1200) // past 2^1024: math.Pow overflows to +Inf
	}
	if i%50 == 0 {
		n = r.Range(2000, 2100)
	}
	pReset := 8
	if i%25 == 0 {
		pReset = 2000
	}
	for k := 0; k < n; k++ {
		if r.Chance(1, pReset) {
			c.Ops = append(c.Ops, 1)
		} else {
			c.Ops = append(c.Ops, 0)
		}
	}
	return c
}

// genReuseCases: the SAME reconws.ReconWs / client.Client / status.Status object is connected, cancelled and
// connected again (new context, new servers, new token) for several rounds; in every round a healthy server
// keeps the connection for 1.5 s and messages have to pass in both directions (pkg/status: reports arrive).
func genReuseCases(r *lib.Rng, rounds int) []Case {
	var cs []Case
	for g, kind := range []string{"reconws-plain", "reconws-auth", "client", "status"} {
		for k := 0; k < rounds; k++ {
			loop := "auth"
			if kind == "reconws-plain" {
				loop = "plain"
			}
			c := Case{Kind: "loop", Loop: loop, Min: cfgMin, Max: cfgMax, Factor: cfgFact, Stay: int64(1500 * time.Millisecond),
				Reuse: kind, Group: g + 1, Round: k}
			if kind == "client" || kind == "status" {
				c.Via, c.Min, c.Max = kind, 1000*ms, 10000*ms
				if k == 1 {
					c.Sched = append(c.Sched, genStep(r, loop, 0))
				}
			} else {
				for n := r.Range(0, 2); n > 0; n-- {
					c.Sched = append(c.Sched, genStep(r, loop, 0))
				}
			}
			c.Sched = append(c.Sched, Step{A: "ok", W: "acceptstay"})
			c.Cancel = Cancel{I: len(c.Sched) - 1, P: "conn"}
			cs = append(cs, c)
		}
	}
	return cs
}

// genWrapperCases: the real users of the client with their own default Retry (1 s / 10 s): a destination
// rule of the host (internal/rwc, without token = Reconnect, with token = ReconnectAuth) and the file tool
// (internal/file.Run, the entry point of `relay file`). The server fails k times, accepts and drops after
// K messages each way, accepts again and stays; then the rule is deleted / the tool's context cancelled.
func genWrapperCases(r *lib.Rng, per int) []Case {
	var cs []Case
	fast := []string{"refuse", "4xx", "5xx", "garbage", "emptyuri", "down"}
	for _, w := range []struct{ via, loop string }{{"rwc", "plain"}, {"rwc", "auth"}, {"file", "auth"}} {
		for n := 0; n < per; n++ {
			c := Case{Kind: "loop", Loop: w.loop, Via: w.via, Min: 1000 * ms, Max: 10000 * ms, Factor: cfgFact, Stay: int64(2 * time.Second)}
			if w.via == "file" {
				c.Stay = int64(4 * time.Second) // the play file sends 8 numbered lines, 300 ms apart
			}
			nf := 1 + (n % 2)
			if w.via == "file" {
				nf = 2 // the tool starts playing 1 s after its start: the first connection must come later than that
			}
			for k := nf; k > 0; k-- {
				st := Step{A: "ok", W: r.Pick(fast)}
				if w.loop == "auth" && r.Bool() {
					st = Step{A: r.Pick(accFail), W: "down"}
				}
				if r.Chance(2, 5) {
					st.H = r.Pick(replyExtras)
				}
				c.Sched = append(c.Sched, st)
			}
			k := r.Range(1, 4)
			if w.via == "rwc" {
				k = 1 // the hub between the user and the client drops what does not fit a 2-slot queue: one at a time
			}
			c.Sched = append(c.Sched, Step{A: "ok", W: "accept", K: k}, Step{A: "ok", W: "acceptstay"})
			c.Cancel = Cancel{I: len(c.Sched) - 1, P: "conn"}
			cs = append(cs, c)
		}
	}
	return cs
}

// genBoffJCase: Jitter = true. The durations are random; what can be compared is that each is a value
// the model allows (within the effective bounds).
func genBoffJCase(r *lib.Rng, i int) Case {
	c := genBoffCase(r, i+1)
	c.Kind = "boffj"
	if len(c.Ops) > 80 {
		c.Ops = c.Ops[:80]
	}
	return c
}

func fmtDur(ns int64) string { return fmt.Sprintf("%.1fms", float64(ns)/1e6) }
