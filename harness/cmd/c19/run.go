package main

import (
	"bytes"
	"compress/gzip"
	"context"
	"encoding/base64"
	"fmt"
	"net"
	"net/http"
	"os"
	"path/filepath"
	"regexp"
	"strconv"
	"strings"
	"sync"
	"sync/atomic"
	"syscall"
	"time"

	"github.com/gorilla/websocket"
	"github.com/jpillora/backoff"
	"github.com/practable/relay/internal/agg"
	"github.com/practable/relay/internal/file"
	"github.com/practable/relay/internal/hub"
	"github.com/practable/relay/internal/reconws"
	"github.com/practable/relay/internal/rwc"
	"github.com/practable/relay/pkg/client"
	"github.com/practable/relay/pkg/status"
)

// ---------------------------------------------------------------- network hooks
// reconws dials through websocket.DefaultDialer and http.DefaultTransport. Both get a DialContext that
// (a) timestamps every TCP dial made for one of our scripted servers (client-side start of an attempt)
// and (b) sends a dial whose scripted behaviour is "down" to a port that is bound but not listening,
// so the kernel answers ECONNREFUSED. The code under test is untouched.

var (
	realDialer = &net.Dialer{Timeout: 30 * time.Second}
	ports      sync.Map // port(int) -> portInfo
	deadAddr   string
	deadFd     int
)

type portInfo struct {
	r    *run
	kind byte // 'a' access, 'w' websocket
}

func installHooks() {
	fd, err := syscall.Socket(syscall.AF_INET, syscall.SOCK_STREAM, 0)
	if err != nil {
		panic(err)
	}
	if err := syscall.Bind(fd, &syscall.SockaddrInet4{Port: 0, Addr: [4]byte{127, 0, 0, 1}}); err != nil {
		panic(err)
	}
	sa, err := syscall.Getsockname(fd)
	if err != nil {
		panic(err)
	}
	deadFd = fd
	deadAddr = "127.0.0.1:" + strconv.Itoa(sa.(*syscall.SockaddrInet4).Port)
	websocket.DefaultDialer.NetDialContext = hookDial
	http.DefaultTransport.(*http.Transport).DialContext = hookDial
}

func hookDial(ctx context.Context, network, addr string) (net.Conn, error) {
	_, p, _ := net.SplitHostPort(addr)
	pn, _ := strconv.Atoi(p)
	v, ok := ports.Load(pn)
	if !ok || ctx.Err() != nil {
		// not ours, or the context is already finished: the real dialer returns the context's error
		// without any network use, so this is not a contact
		return realDialer.DialContext(ctx, network, addr)
	}
	pi := v.(portInfo)
	r := pi.r
	now := time.Now()
	r.mu.Lock()
	var a *attempt
	if (pi.kind == 'a' || r.c.Loop == "plain") && len(r.attempts) >= 600 {
		a = r.attempts[len(r.attempts)-1] // a storm: enough has been recorded
	} else if pi.kind == 'a' || r.c.Loop == "plain" {
		a = &attempt{idx: len(r.attempts), start: now, wsStart: time.Time{}}
		r.attempts = append(r.attempts, a)
		select {
		case r.resume <- struct{}{}: // the user of the client consumes r.In again
		default:
		}
	} else if len(r.attempts) > 0 {
		a = r.attempts[len(r.attempts)-1]
	} else { // a websocket dial of ReconnectAuth with no access request before it: record it on its own
		a = &attempt{idx: 0, start: now}
		r.attempts = append(r.attempts, a)
	}
	st := r.step(a.idx)
	target := addr
	if pi.kind == 'a' {
		a.acc = true
		if st.A == "down" {
			target = deadAddr
		}
	} else {
		a.ws = true
		a.wsStart = now
		if st.W == "down" {
			target = deadAddr
		}
	}
	r.mu.Unlock()
	if pi.kind == 'a' && st.A == "down" && r.trigger(a.idx, "access") {
		r.doCancel(false) // no handler will see this POST: the cancellation scripted for it is raised here
	}
	c, err := realDialer.DialContext(ctx, network, target)
	if target == deadAddr {
		r.endAttempt(a)
	}
	return c, err
}

// ---------------------------------------------------------------- scheduler lag monitor

var (
	lagMu   sync.Mutex
	lagSpan [][2]time.Time
)

func startLagMonitor() {
	go func() {
		for {
			t0 := time.Now()
			time.Sleep(2 * time.Millisecond)
			t1 := time.Now()
			if t1.Sub(t0) > 27*time.Millisecond {
				lagMu.Lock()
				lagSpan = append(lagSpan, [2]time.Time{t0, t1})
				lagMu.Unlock()
			}
		}
	}()
}

func lagged(a, b time.Time) bool {
	lagMu.Lock()
	defer lagMu.Unlock()
	for _, s := range lagSpan {
		if s[0].Before(b) && a.Before(s[1]) {
			return true
		}
	}
	return false
}

// ---------------------------------------------------------------- one scripted run

type attempt struct {
	idx          int
	start, end   time.Time
	wsStart      time.Time
	acc, ws, est bool
	k            int
	inSeq        []int
	ackSeq       []int
	malformed    string // why the strict front end refused this attempt's request ("" = it did not)
}

type run struct {
	mu         sync.Mutex
	c          *Case
	attempts   []*attempt
	launch     time.Time
	cancel     context.CancelFunc
	cancelAt   time.Time
	forced     bool
	finished   chan struct{}
	connClosed time.Time
	wsURL      string
	rc         *reconws.ReconWs
	pauseReq   chan struct{} // the consumer of r.In stops consuming (synchronous hand-over)
	resume     chan struct{}
	busyStop   chan struct{} // non-nil while the busy sender runs
	busyLater  []int         // numbers of the busy sender's messages received on later connections, in order
	busyIdx    int           // the attempt during which the busy sender started
	stayArmed  bool
	stayUp     chan struct{} // closed when the long-lived connection is first established
	tag        string        // marks the numbered messages of this run (a re-used client may still hold one of the last round)
	garbled    []int
	sentAt     []time.Time // long-lived connection: when numbered message n was handed to r.Out (pkg/status run: sent by the server)
	echoSeq    []int
}

func (r *run) step(i int) Step {
	if i < len(r.c.Sched) {
		return r.c.Sched[i]
	}
	// beyond the script (only reached if the client outruns the model)
	if n := len(r.c.Sched); n > 0 && r.c.Sched[n-1].W == "acceptstay" {
		return r.c.Sched[n-1] // the healthy server stays healthy, whoever connects again
	}
	return Step{A: "refuse", W: "refuse"}
}

func (r *run) doCancel(forced bool) {
	r.mu.Lock()
	if r.cancelAt.IsZero() {
		r.cancelAt = time.Now()
		r.forced = forced
		r.mu.Unlock()
		r.cancel()
		r.mu.Lock()
		r.cancelAt = time.Now() // "cancelled" from the moment cancel() has returned
	}
	r.mu.Unlock()
}

func (r *run) trigger(idx int, phase string) bool {
	return r.c.Cancel.I == idx && r.c.Cancel.P == phase
}

// endAttempt stamps the end of an attempt and arms a cancellation scripted for the wait that follows
func (r *run) endAttempt(a *attempt) {
	r.mu.Lock()
	a.end = time.Now()
	r.mu.Unlock()
	if r.trigger(a.idx+1, "wait") {
		w := waitBefore(r.c.Loop, r.c.Sched, a.idx+1, r.c.Min, r.c.Max)
		go func() {
			select {
			case <-time.After(time.Duration(w / 2)):
				r.doCancel(false)
			case <-r.finished:
			}
		}()
	}
}

func (r *run) current() *attempt {
	r.mu.Lock()
	defer r.mu.Unlock()
	if len(r.attempts) == 0 {
		a := &attempt{idx: 0, start: time.Now()}
		r.attempts = append(r.attempts, a)
	}
	return r.attempts[len(r.attempts)-1]
}

func hijackClose(w http.ResponseWriter, payload string) {
	hj, ok := w.(http.Hijacker)
	if !ok {
		return
	}
	c, _, err := hj.Hijack()
	if err != nil {
		return
	}
	if payload != "" {
		_, _ = c.Write([]byte(payload))
	}
	_ = c.Close()
}

// wellFormed is what a strict front end (nginx, a cloud load balancer) insists on before it passes a request
// on: one line each of the headers that must not repeat, a sane Content-Length. "" = fine.
func wellFormed(req *http.Request, ws bool) string {
	single := []string{"Authorization", "Content-Length", "Content-Type", "User-Agent", "Host", "Origin", "Cookie"}
	if ws {
		single = append(single, "Upgrade", "Sec-Websocket-Key", "Sec-Websocket-Version", "Sec-Websocket-Protocol")
	}
	for _, h := range single {
		if n := len(req.Header.Values(h)); n > 1 {
			return fmt.Sprintf("%d %s header lines", n, h)
		}
	}
	if req.Host == "" {
		return "no Host"
	}
	if !ws {
		if len(req.Header.Values("Authorization")) != 1 {
			return "no Authorization header line"
		}
		if req.ContentLength > 0 || len(req.TransferEncoding) > 0 {
			return fmt.Sprintf("a body (Content-Length %d, Transfer-Encoding %v) on a request that has none", req.ContentLength, req.TransferEncoding)
		}
	}
	return ""
}

func (r *run) refuseMalformed(w http.ResponseWriter, a *attempt, why string) {
	r.mu.Lock()
	a.malformed = why
	r.mu.Unlock()
	w.Header().Set("Content-Type", "text/html")
	w.WriteHeader(400)
	fmt.Fprint(w, "<html><head><title>400 Bad Request</title></head><body><center>client sent duplicate header line</center></body></html>")
}

func (r *run) accessHandler(w http.ResponseWriter, req *http.Request) {
	a := r.current()
	st := r.step(a.idx)
	if why := wellFormed(req, false); why != "" {
		r.refuseMalformed(w, a, why)
		r.endAttempt(a)
		return
	}
	if r.trigger(a.idx, "access") {
		r.doCancel(false)
		time.Sleep(10 * time.Millisecond)
	}
	final := st.A != "ok" // the attempt ends here unless a uri is handed out
	switch st.A {
	case "ok":
		reply(w, req, 200, "application/json", fmt.Sprintf(`{"uri":"%s"}`, r.wsURL), st.H)
	case "refuse":
		hijackClose(w, "")
	case "hang":
		select {
		case <-req.Context().Done():
		case <-r.finished:
		}
	case "4xx":
		reply(w, req, []int{401, 403, 429}[a.idx%3], "application/json", `{"code":"401","message":"token invalid"}`, st.H)
	case "5xx":
		reply(w, req, []int{502, 503, 500}[a.idx%3], "", "502 Bad Gateway", st.H)
	case "garbage":
		if a.idx%2 == 0 {
			reply(w, req, 200, "text/html", "<html>not json</html>", st.H)
		} else {
			hijackClose(w, "\x00\x01\x02 this is not HTTP\r\n\r\n")
		}
	case "emptyuri":
		if a.idx%2 == 0 {
			reply(w, req, 200, "application/json", `{}`, st.H)
		} else {
			reply(w, req, 200, "application/json", `{"uri":""}`, st.H)
		}
	case "down":
		hijackClose(w, "") // unreachable: the hook sends "down" to the dead port
	}
	if final {
		r.endAttempt(a)
	}
}

// reply writes an HTTP reply together with what a proxy in front of the relay might add to it
func reply(w http.ResponseWriter, req *http.Request, code int, ctype, body, extras string) {
	h := w.Header()
	if ctype != "" {
		h.Set("Content-Type", ctype)
	}
	gz, chunked := false, false
	for _, x := range strings.Split(extras, "+") {
		switch x {
		case "ra-sec":
			h.Set("Retry-After", "2")
		case "ra-big":
			h.Set("Retry-After", "99999999999")
		case "ra-neg":
			h.Set("Retry-After", "-5")
		case "ra-garbage":
			h.Set("Retry-After", "soon")
		case "ra-date":
			h.Set("Retry-After", time.Now().Add(3*time.Second).UTC().Format(http.TimeFormat))
		case "close":
			h.Set("Connection", "close")
		case "location":
			h.Set("Location", "http://127.0.0.1:1/elsewhere")
		case "chunked":
			chunked = true
		case "gzip":
			gz = strings.Contains(req.Header.Get("Accept-Encoding"), "gzip")
		case "early":
			h.Set("Link", "</app.css>; rel=preload")
			w.WriteHeader(http.StatusEarlyHints)
		}
	}
	data := []byte(body)
	if gz {
		var buf bytes.Buffer
		zw := gzip.NewWriter(&buf)
		_, _ = zw.Write(data)
		_ = zw.Close()
		data = buf.Bytes()
		h.Set("Content-Encoding", "gzip")
	}
	w.WriteHeader(code)
	if chunked && len(data) > 1 {
		_, _ = w.Write(data[:len(data)/2])
		if f, ok := w.(http.Flusher); ok {
			f.Flush()
		}
		_, _ = w.Write(data[len(data)/2:])
		return
	}
	_, _ = w.Write(data)
}

var upgrader = websocket.Upgrader{CheckOrigin: func(*http.Request) bool { return true }}

func (r *run) wsHandler(w http.ResponseWriter, req *http.Request) {
	a := r.current()
	st := r.step(a.idx)
	defer r.endAttempt(a)
	if why := wellFormed(req, true); why != "" {
		r.refuseMalformed(w, a, why)
		return
	}
	if r.trigger(a.idx, "ws") {
		r.doCancel(false)
		if st.W != "hang" {
			time.Sleep(5 * time.Millisecond)
		}
	}
	switch st.W {
	case "refuse", "down":
		hijackClose(w, "")
	case "4xx":
		reply(w, req, []int{403, 401, 429}[a.idx%3], "text/plain; charset=utf-8", "forbidden\n", st.H)
	case "5xx":
		reply(w, req, []int{503, 502, 500}[a.idx%3], "text/plain; charset=utf-8", "unavailable\n", st.H)
	case "garbage":
		hijackClose(w, "\x00\x01\x02 this is not HTTP\r\n\r\n")
	case "emptyuri":
		reply(w, req, 200, "application/json", `{}`, st.H)
	case "hang":
		select {
		case <-req.Context().Done():
		case <-r.finished:
		}
	case "accept", "accepthang", "acceptdropw", "acceptstay", "acceptbad":
		c, err := upgrader.Upgrade(w, req, nil)
		if err != nil {
			return
		}
		r.mu.Lock()
		a.est = true
		r.mu.Unlock()
		if st.W == "acceptdropw" {
			r.serveDropW(c, a)
		} else if st.W == "acceptstay" || st.W == "acceptbad" {
			r.serveStay(c, a)
		} else {
			r.serveConn(c, a, st)
		}
	}
}

// serveStay: a healthy server: echoes every message for as long as the client stays; the context is
// cancelled [Stay] after the first such connection was established.
func (r *run) serveStay(c *websocket.Conn, a *attempt) {
	defer c.Close()
	r.mu.Lock()
	first := !r.stayArmed
	r.stayArmed = true
	r.mu.Unlock()
	if first {
		close(r.stayUp)
		if r.c.Via == "file" { // the play file waits for this line before it starts sending
			_ = c.WriteMessage(websocket.TextMessage, []byte("hello:"+r.tag))
		}
		go func() {
			select {
			case <-time.After(time.Duration(r.c.Stay)):
				r.doCancel(false)
			case <-r.finished:
			}
		}()
	}
	if r.c.Via == "status" {
		// pkg/status has no sending side: the server pushes numbered reports, every fifth one undecodable
		gone := make(chan struct{})
		go func() {
			for {
				if _, _, err := c.ReadMessage(); err != nil {
					r.mu.Lock()
					if !r.cancelAt.IsZero() && r.connClosed.IsZero() {
						r.connClosed = time.Now()
					}
					r.mu.Unlock()
					close(gone)
					return
				}
			}
		}()
		for {
			r.mu.Lock()
			n := len(r.sentAt)
			r.mu.Unlock()
			payload := fmt.Sprintf(`[{"topic":"e:%d:%s","canRead":true,"scopes":["read"]}]`, n, r.tag)
			if n%5 == 4 {
				payload = []string{"this is not json", `{"topic":"an object, not a list"}`}[(n/5)%2]
			}
			if err := c.WriteMessage(websocket.TextMessage, []byte(payload)); err != nil {
				return
			}
			r.mu.Lock()
			r.sentAt = append(r.sentAt, time.Now())
			if n%5 == 4 {
				r.garbled = append(r.garbled, n)
			}
			a.k = len(r.sentAt)
			r.mu.Unlock()
			select {
			case <-time.After(300 * time.Millisecond):
			case <-gone:
				return
			case <-r.finished:
				return
			}
		}
	}
	for {
		_ = c.SetReadDeadline(time.Now().Add(time.Duration(r.c.Stay) + 10*time.Second))
		mt, data, err := c.ReadMessage()
		if err != nil {
			r.mu.Lock()
			if !r.cancelAt.IsZero() && r.connClosed.IsZero() {
				r.connClosed = time.Now()
			}
			r.mu.Unlock()
			return
		}
		r.mu.Lock()
		a.k++
		if r.c.Via == "file" && strings.HasPrefix(string(data), "e:") {
			r.sentAt = append(r.sentAt, time.Now()) // the tool sends by itself: the time of arrival stands in
		}
		r.mu.Unlock()
		if err := c.WriteMessage(mt, data); err != nil {
			return
		}
	}
}

// serveDropW: a connection that carries traffic and whose loss the client's WRITE loop notices first.
// The user stops consuming r.In, one server message parks the client's read goroutine on r.In, the
// user sends on r.Out all the time, the server reads a few of those messages and drops the connection
// (abruptly, or with a close frame that nobody will read).
func (r *run) serveDropW(c *websocket.Conn, a *attempt) {
	defer c.Close()
	select {
	case r.pauseReq <- struct{}{}: // from here on nobody receives from r.In
	case <-r.finished:
		return
	}
	if err := c.WriteMessage(websocket.TextMessage, []byte(fmt.Sprintf("s:%d:0", a.idx))); err != nil {
		return
	}
	time.Sleep(30 * time.Millisecond) // the read goroutine has taken it and sits in "r.In <- msg"
	stop := make(chan struct{})
	r.mu.Lock()
	r.busyStop = stop
	r.busyIdx = a.idx
	r.mu.Unlock()
	go func() { // the busy sender
		for n := 0; ; n++ {
			select {
			case r.rc.Out <- reconws.WsMessage{Type: websocket.TextMessage, Data: []byte(fmt.Sprintf("b:%d:%d", a.idx, n))}:
			case <-stop:
				return
			case <-r.finished:
				return
			}
			// no pause: the next message is already waiting on r.Out while this one is being written
		}
	}()
	for got := 0; got < 5; {
		_ = c.SetReadDeadline(time.Now().Add(3 * time.Second))
		_, data, err := c.ReadMessage()
		if err != nil {
			return
		}
		parts := strings.Split(string(data), ":")
		if len(parts) != 3 || parts[0] != "b" {
			continue
		}
		n, _ := strconv.Atoi(parts[2])
		r.mu.Lock()
		a.ackSeq = append(a.ackSeq, n)
		a.k = len(a.ackSeq)
		r.mu.Unlock()
		got++
	}
	if a.idx%2 == 0 {
		if tc, ok := c.UnderlyingConn().(*net.TCPConn); ok {
			_ = tc.SetLinger(0) // abrupt: RST
		}
	} else {
		_ = c.WriteControl(websocket.CloseMessage, websocket.FormatCloseMessage(websocket.CloseGoingAway, ""), time.Now().Add(time.Second))
	}
}

// serveConn: send k numbered messages (in bursts), collect the client's acknowledgements, then drop.
func (r *run) serveConn(c *websocket.Conn, a *attempt, st Step) {
	defer c.Close()
	cancelHere := r.trigger(a.idx, "conn")
	go func() {
		for n := 0; n < st.K; n++ {
			mt := websocket.TextMessage
			if n%3 == 2 {
				mt = websocket.BinaryMessage
			}
			if err := c.WriteMessage(mt, []byte(fmt.Sprintf("s:%d:%d", a.idx, n))); err != nil {
				return
			}
			if n%4 == 3 {
				time.Sleep(time.Millisecond)
			}
		}
	}()
	got := 0
	for got < st.K {
		_ = c.SetReadDeadline(time.Now().Add(3 * time.Second))
		_, data, err := c.ReadMessage()
		if err != nil {
			if cancelHere {
				r.mu.Lock()
				if r.connClosed.IsZero() {
					r.connClosed = time.Now()
				}
				r.mu.Unlock()
			}
			return
		}
		parts := strings.Split(string(data), ":")
		if len(parts) == 3 && parts[0] == "b" { // the busy sender of an earlier connection is still at it
			n, _ := strconv.Atoi(parts[2])
			r.mu.Lock()
			r.busyLater = append(r.busyLater, n)
			r.mu.Unlock()
			continue
		}
		if len(parts) != 3 || parts[0] != "c" {
			continue
		}
		ai, _ := strconv.Atoi(parts[1])
		n, _ := strconv.Atoi(parts[2])
		if ai != a.idx {
			continue // accepted on r.Out during an earlier connection, delivered on this one: not ours
		}
		r.mu.Lock()
		a.ackSeq = append(a.ackSeq, n)
		a.k = len(a.ackSeq)
		r.mu.Unlock()
		got++
		if cancelHere && got == r.c.Cancel.J && st.W != "accepthang" {
			r.doCancel(false)
		}
	}
	r.mu.Lock()
	collect := r.busyStop != nil && a.idx == r.busyIdx+1
	r.mu.Unlock()
	if collect {
		// the connection right after the one whose loss the writer noticed: see a good number of the busy
		// sender's next messages, and in which order they come
		until := time.Now().Add(500 * time.Millisecond)
		for {
			r.mu.Lock()
			enough := len(r.busyLater) >= 10
			r.mu.Unlock()
			if enough || time.Now().After(until) {
				break
			}
			_ = c.SetReadDeadline(until)
			_, data, err := c.ReadMessage()
			if err != nil {
				break
			}
			if parts := strings.Split(string(data), ":"); len(parts) == 3 && parts[0] == "b" {
				n, _ := strconv.Atoi(parts[2])
				r.mu.Lock()
				r.busyLater = append(r.busyLater, n)
				r.mu.Unlock()
			}
		}
	}
	if st.W == "accepthang" {
		// go silent: no more websocket reads (so no automatic answer to a close frame), nothing sent.
		// Only the raw socket is watched, to see when the client's side of the TCP connection ends.
		raw := c.UnderlyingConn()
		if cancelHere {
			time.Sleep(20 * time.Millisecond)
			r.doCancel(false)
		}
		buf := make([]byte, 4096)
		_ = raw.SetReadDeadline(time.Now().Add(3 * time.Second))
		for {
			if _, err := raw.Read(buf); err != nil {
				if ne, ok := err.(net.Error); !(ok && ne.Timeout()) {
					r.mu.Lock()
					if r.connClosed.IsZero() {
						r.connClosed = time.Now()
					}
					r.mu.Unlock()
				}
				break
			}
		}
		r.mu.Lock()
		closed := !r.connClosed.IsZero()
		r.mu.Unlock()
		if !closed {
			<-r.finished // the client never closed: keep the connection until the run is over
		}
		return
	}
	if cancelHere { // cancelled earlier in this connection: watch for the client closing it
		_ = c.SetReadDeadline(time.Now().Add(2 * time.Second))
		for {
			if _, _, err := c.ReadMessage(); err != nil {
				r.mu.Lock()
				if r.connClosed.IsZero() {
					r.connClosed = time.Now()
				}
				r.mu.Unlock()
				return
			}
		}
	}
	// the drop: in the middle of a frame (announce 4096 bytes, send 100, close), or with / without a close frame
	if a.idx%3 == 2 {
		_, _ = c.UnderlyingConn().Write(append([]byte{0x82, 0x7e, 0x10, 0x00}, make([]byte, 100)...))
		return
	}
	if a.idx%2 == 0 {
		reason := ""
		if a.idx%4 == 0 {
			reason = "server is restarting for maintenance, please reconnect later"
		}
		_ = c.WriteControl(websocket.CloseMessage, websocket.FormatCloseMessage(websocket.CloseGoingAway, reason), time.Now().Add(time.Second))
	}
}

func serve(h http.HandlerFunc, keepAlive bool) (*http.Server, int) {
	l, err := net.Listen("tcp", "127.0.0.1:0")
	if err != nil {
		panic(err)
	}
	s := &http.Server{Handler: h}
	s.SetKeepAlivesEnabled(keepAlive)
	go func() { _ = s.Serve(l) }()
	return s, l.Addr().(*net.TCPAddr).Port
}

// deadline for the scripted cancellation to have fired: the waits the property allows at most (Max each)
// plus a generous allowance per attempt, plus the library timeouts of scripted hangs
func (c *Case) deadline() time.Duration {
	d := 3*time.Second + time.Duration(c.Stay)
	for i := 0; i <= c.Cancel.I && i < len(c.Sched); i++ {
		d += time.Duration(c.Max) + 400*time.Millisecond
		if c.Loop == "auth" && c.Sched[i].A == "hang" {
			d += 11 * time.Second
		}
		if (c.Loop == "plain" || c.Sched[i].A == "ok") && c.Sched[i].W == "hang" && i != c.Cancel.I {
			d += 46 * time.Second
		}
	}
	return d
}

// stopAllowance: how long the attempt that is in flight at the cancellation may take to run out.
// The access POST is not context-aware (http.Client timeout 10 s); gorilla 1.5.0 turns the context
// into a deadline only, so a handshake that hangs runs out the 45 s HandshakeTimeout; then Reconnect
// still serves one backoff sleep (<= Max).
func (c *Case) stopAllowance() time.Duration {
	d := time.Duration(c.Max) + 12*time.Second
	if c.Cancel.I < len(c.Sched) && c.Sched[c.Cancel.I].W == "hang" && c.Cancel.P == "ws" {
		d = time.Duration(c.Max) + 47*time.Second
	}
	return d
}

// shared holds the client objects that a re-use group carries from round to round
type shared struct {
	rc  *reconws.ReconWs
	cl  *client.Client
	stw *status.Status
}

var runSeq int64

func runLoop(c *Case, sh *shared) {
	if sh == nil {
		sh = &shared{}
	}
	r := &run{c: c, finished: make(chan struct{}), pauseReq: make(chan struct{}), resume: make(chan struct{}, 1), stayUp: make(chan struct{})}
	as, pa := serve(r.accessHandler, false)
	ws, pw := serve(r.wsHandler, true)
	ports.Store(pa, portInfo{r, 'a'})
	ports.Store(pw, portInfo{r, 'w'})
	defer func() {
		ports.Delete(pa)
		ports.Delete(pw)
		_ = as.Close()
		_ = ws.Close()
	}()
	r.wsURL = fmt.Sprintf("ws://127.0.0.1:%d/ws", pw)

	if sh.rc == nil {
		sh.rc = reconws.New()
	}
	rc := sh.rc
	r.tag = fmt.Sprintf("t%d", atomic.AddInt64(&runSeq, 1))
	rc.Retry = reconws.RetryConfig{Factor: float64(c.Factor), Min: time.Duration(c.Min), Max: time.Duration(c.Max), Timeout: 200 * time.Millisecond}
	ctx, cancel := context.WithCancel(context.Background())
	r.cancel = cancel
	r.rc = rc
	inCh, outCh := rc.In, rc.Out
	var cl *client.Client
	var launchWrapper func()
	if c.Via == "rwc" {
		// a destination rule of the host: hub <-> RelayOut/RelayIn <-> the reconnecting client
		closed := make(chan struct{})
		mh := agg.New()
		go mh.Run(closed)
		h := rwc.New(mh)
		go h.Run(closed)
		local := &hub.Client{Hub: mh.Hub, Name: "harness", Topic: "data", Send: make(chan hub.Message, 256), Stats: hub.NewClientStats()}
		inCh, outCh = make(chan reconws.WsMessage), make(chan reconws.WsMessage)
		go func() {
			for {
				select {
				case m := <-local.Send:
					select {
					case inCh <- reconws.WsMessage{Data: m.Data, Type: m.Type}:
					case <-r.finished:
						return
					}
				case <-r.finished:
					return
				}
			}
		}()
		go func() {
			for {
				select {
				case m := <-outCh:
					select {
					case mh.Broadcast <- hub.Message{Sender: *local, Data: m.Data, Type: m.Type, Sent: time.Now()}:
						// the hub DROPS a message for a client whose 2-slot queue is full (made for video): do not burst
						time.Sleep(25 * time.Millisecond)
					case <-r.finished:
						return
					}
				case <-r.finished:
					return
				}
			}
		}()
		rule := rwc.Rule{ID: "rule-" + r.tag, Stream: "data", Destination: r.wsURL}
		if c.Loop == "auth" {
			rule.Destination, rule.Token = fmt.Sprintf("http://127.0.0.1:%d/session/x", pa), "token"
		}
		launchWrapper = func() {
			mh.Register <- local
			h.Add <- rule
		}
		cancel = func() {
			select {
			case h.Delete <- rule.ID: // deleting the rule cancels its client
			case <-time.After(2 * time.Second):
			}
		}
		r.cancel = cancel
		go func() { <-r.finished; close(closed) }()
	}
	if c.Via == "file" {
		// the file tool: incoming lines go to the log file, outgoing lines come from the play file
		dir, _ := os.MkdirTemp("", "c19-file-")
		logf, playf := filepath.Join(dir, "log.txt"), filepath.Join(dir, "play.txt")
		var pb strings.Builder
		for i, st := range c.Sched {
			if st.W == "accept" && st.K > 0 {
				// acknowledge once the LAST of the server's K messages has come in (a condition line of the tool):
				// then all of them have, in order
				last := fmt.Sprintf("s:%d:%d", i, st.K-1)
				if (st.K-1)%3 == 2 { // sent as a binary message: the tool shows it base64-encoded
					last = base64.StdEncoding.EncodeToString([]byte(last))
				}
				fmt.Fprintf(&pb, "<'^%s$',1,60s> c:%d:0\n", regexp.QuoteMeta(last), i)
				for n := 1; n < st.K; n++ {
					fmt.Fprintf(&pb, "c:%d:%d\n", i, n)
				}
			}
		}
		fmt.Fprintf(&pb, "<'^hello:%s$',1,60s> e:0:%s\n", r.tag, r.tag)
		for n := 1; n < 8; n++ {
			fmt.Fprintf(&pb, "[300ms] e:%d:%s\n", n, r.tag)
		}
		_ = os.WriteFile(playf, []byte(pb.String()), 0o644)
		inCh, outCh = make(chan reconws.WsMessage), make(chan reconws.WsMessage)
		go func() { // nothing can be handed to the tool at run time: what the user would send is in the play file
			for {
				select {
				case <-outCh:
				case <-r.finished:
					return
				}
			}
		}()
		go func() { // follow the log file
			defer os.RemoveAll(dir)
			off := 0
			for {
				if b, err := os.ReadFile(logf); err == nil && len(b) > off {
					chunk := string(b[off:])
					if i := strings.LastIndex(chunk, "\n"); i >= 0 {
						for _, line := range strings.Split(chunk[:i], "\n") {
							if j := strings.Index(line, "] "); j >= 0 {
								content, mt := []byte(line[j+2:]), websocket.TextMessage
								// the tool logs a binary message base64-encoded
								if dec, err := base64.StdEncoding.DecodeString(line[j+2:]); err == nil && !strings.Contains(line[j+2:], ":") {
									content, mt = dec, websocket.BinaryMessage
								}
								select {
								case inCh <- reconws.WsMessage{Data: content, Type: mt}:
								case <-r.finished:
									return
								}
							}
						}
						off += i + 1
					}
				}
				select {
				case <-time.After(15 * time.Millisecond):
				case <-r.finished:
					return
				}
			}
		}()
		launchWrapper = func() {
			go func() {
				_ = file.Run(ctx, make(chan os.Signal), fmt.Sprintf("http://127.0.0.1:%d/session/x", pa), "token", logf, playf, 10*time.Millisecond, false, false)
			}()
		}
	}
	var stw *status.Status
	if c.Via == "status" {
		if sh.stw == nil {
			sh.stw = status.New()
		}
		stw = sh.stw
		inCh, outCh = make(chan reconws.WsMessage), make(chan reconws.WsMessage) // nothing can be sent through pkg/status
		go func() {
			for {
				select {
				case reps := <-stw.Status:
					for _, rep := range reps {
						select {
						case inCh <- reconws.WsMessage{Data: []byte(rep.Topic), Type: websocket.TextMessage}:
						case <-r.finished:
							return
						}
					}
				case <-r.finished:
					return
				}
			}
		}()
	}
	if c.Via == "client" {
		// the public wrapper: Send -> (forwarder) -> r.Out and r.In -> (forwarder) -> Receive, ReconnectAuth inside
		if sh.cl == nil {
			sh.cl = client.New()
		}
		cl = sh.cl
		inCh, outCh = make(chan reconws.WsMessage), make(chan reconws.WsMessage)
		go func() {
			for {
				select {
				case m := <-cl.Receive:
					select {
					case inCh <- reconws.WsMessage{Data: m.Content, Type: m.Type}:
					case <-r.finished:
						return
					}
				case <-r.finished:
					return
				}
			}
		}()
		go func() {
			for {
				select {
				case m := <-outCh:
					select {
					case cl.Send <- client.Message{Content: m.Data, Type: m.Type}:
					case <-r.finished:
						return
					}
				case <-r.finished:
					return
				}
			}
		}()
	}

	// the user of the client: acknowledge every message that arrives on In, in order, on Out
	acks := make(chan string, 4096)
	go func() {
		for {
			select {
			case m := <-inCh:
				parts := strings.Split(string(m.Data), ":")
				if len(parts) == 3 && parts[0] == "e" && parts[2] == r.tag {
					n, _ := strconv.Atoi(parts[1])
					r.mu.Lock()
					r.echoSeq = append(r.echoSeq, n)
					r.mu.Unlock()
				}
				if len(parts) == 3 && parts[0] == "s" {
					ai, _ := strconv.Atoi(parts[1])
					n, _ := strconv.Atoi(parts[2])
					r.mu.Lock()
					if ai < len(r.attempts) {
						r.attempts[ai].inSeq = append(r.attempts[ai].inSeq, n)
					}
					r.mu.Unlock()
					acks <- fmt.Sprintf("c:%d:%d", ai, n)
				}
			case <-r.pauseReq: // stop consuming r.In until told to go on
				select {
				case <-r.resume: // a stale token from before the pause
				default:
				}
				select {
				case <-r.resume:
				case <-r.finished:
					return
				}
			case <-r.finished:
				return
			}
		}
	}()
	go func() {
		n := 0
		for {
			select {
			case s := <-acks:
				mt := websocket.TextMessage
				if n%2 == 1 {
					mt = websocket.BinaryMessage
				}
				n++
				select {
				case outCh <- reconws.WsMessage{Type: mt, Data: []byte(s)}:
				case <-r.finished:
					return
				}
			case <-r.finished:
				return
			}
		}
	}()

	if c.Stay > 0 && c.Via != "status" && c.Via != "file" { // the user of a long-lived connection: a numbered message every ~300 ms
		go func() {
			if c.Via == "rwc" { // the hub drops a destination that does not take its messages: only talk when connected
				select {
				case <-r.stayUp:
				case <-r.finished:
					return
				}
			}
			for n := 0; ; n++ {
				mt := websocket.TextMessage
				if n%2 == 1 {
					mt = websocket.BinaryMessage
				}
				bad := c.BadAt > 0 && n == c.BadAt
				if bad {
					mt = 0 // not a websocket message type: WriteMessage refuses it
				}
				select {
				case outCh <- reconws.WsMessage{Type: mt, Data: []byte(fmt.Sprintf("e:%d:%s", n, r.tag))}:
					r.mu.Lock()
					r.sentAt = append(r.sentAt, time.Now())
					if bad {
						r.garbled = append(r.garbled, n)
						if k := len(r.attempts); k > 0 { // the connection in use ends here, by the user's doing
							r.attempts[k-1].end = time.Now()
						}
					}
					r.mu.Unlock()
				case <-r.finished:
					return
				}
				select {
				case <-time.After(300 * time.Millisecond):
				case <-r.finished:
					return
				}
			}
		}()
	}

	returned := make(chan struct{})
	var returnedAt time.Time
	r.launch = time.Now()
	if launchWrapper != nil {
		// the loop runs inside the wrapper, its return cannot be seen from here: what is checked instead is that
		// nothing contacts the servers any more after the cancellation
		launchWrapper()
		go func() {
			for {
				r.mu.Lock()
				z := r.cancelAt.IsZero()
				r.mu.Unlock()
				if !z {
					time.Sleep(50 * time.Millisecond)
					returnedAt = time.Now()
					close(returned)
					return
				}
				select {
				case <-time.After(10 * time.Millisecond):
				case <-r.finished:
					return
				}
			}
		}()
	} else {
		go func() {
			if stw != nil {
				stw.Connect(ctx, fmt.Sprintf("http://127.0.0.1:%d/session/x", pa), "token")
			} else if cl != nil {
				cl.Connect(ctx, fmt.Sprintf("http://127.0.0.1:%d/session/x", pa), "token")
			} else if c.Loop == "auth" {
				rc.ReconnectAuth(ctx, fmt.Sprintf("http://127.0.0.1:%d/session/x", pa), "token")
			} else {
				rc.Reconnect(ctx, r.wsURL)
			}
			returnedAt = time.Now()
			close(returned)
		}()
	}

	// wait for the scripted cancellation (or give up at the deadline), then for the loop to return
	dl := time.After(c.deadline())
	early := false
WAIT:
	for {
		select {
		case <-returned:
			early = true
			break WAIT
		case <-dl:
			r.doCancel(true)
			break WAIT
		case <-time.After(5 * time.Millisecond):
			r.mu.Lock()
			z := r.cancelAt.IsZero()
			r.mu.Unlock()
			if !z {
				break WAIT
			}
		}
	}
	didReturn := early
	if !early {
		// an attempt in flight may run out its library timeout (the POST is not context-aware: 10 s)
		select {
		case <-returned:
			didReturn = true
		case <-time.After(c.stopAllowance()):
		}
	}
	// quiet period: anything the client still does now is after the cancellation
	quiet := time.Duration(c.Max)
	if quiet > 850*time.Millisecond {
		quiet = 850 * time.Millisecond
	}
	time.Sleep(quiet + 150*time.Millisecond)
	r.doCancel(true)
	close(r.finished)

	r.mu.Lock()
	defer r.mu.Unlock()
	rel := func(t time.Time) int64 {
		if t.IsZero() {
			return -1
		}
		return int64(t.Sub(r.launch))
	}
	tr := &Trace{CancelAt: rel(r.cancelAt), Forced: r.forced, ReturnedAt: -1, ConnClosedAt: rel(r.connClosed)}
	if didReturn {
		tr.ReturnedAt = rel(returnedAt)
	}
	c.Returned = didReturn
	c.Obs = nil
	prevStart, prevEnd := r.launch, r.launch
	stayEchoGiven := false
	for _, a := range r.attempts {
		o := Obs{GapSS: int64(a.start.Sub(prevStart)), GapES: int64(a.start.Sub(prevEnd)), Acc: a.acc, Ws: a.ws, Est: a.est, K: a.k}
		o.In = append([]int{}, a.inSeq...)
		o.Ack = append([]int{}, a.ackSeq...)
		if r.busyStop != nil && a.idx == r.busyIdx {
			o.Later = append([]int{}, r.busyLater...)
		}
		if a.est && r.step(a.idx).W == "acceptstay" && !stayEchoGiven {
			o.In = append([]int{}, r.echoSeq...) // the echoes of the long-lived connection
			o.K = len(r.sentAt)
			o.Garbled = append([]int{}, r.garbled...)
			stayEchoGiven = true
		}
		if a.idx == c.Cancel.I && !r.cancelAt.IsZero() && !r.connClosed.IsZero() && r.connClosed.Sub(r.cancelAt) <= time.Second {
			o.Closed = true
		}
		o.Timed = !lagged(prevEnd.Add(-30*time.Millisecond), a.start.Add(30*time.Millisecond)) && !prevEnd.IsZero()
		c.Obs = append(c.Obs, o)
		tr.Start = append(tr.Start, rel(a.start))
		tr.End = append(tr.End, rel(a.end))
		tr.WsStart = append(tr.WsStart, rel(a.wsStart))
		tr.InSeq = append(tr.InSeq, append([]int{}, a.inSeq...))
		tr.AckSeq = append(tr.AckSeq, append([]int{}, a.ackSeq...))
		tr.Lagged = append(tr.Lagged, !o.Timed)
		tr.Malformed = append(tr.Malformed, a.malformed)
		prevStart = a.start
		prevEnd = a.end
		if a.end.IsZero() {
			prevEnd = a.start
		}
	}
	for _, t := range r.sentAt {
		tr.SentAt = append(tr.SentAt, rel(t))
	}
	tr.EchoSeq = append([]int{}, r.echoSeq...)
	tr.Garbled = append([]int{}, r.garbled...)
	c.Trace = tr
}

func runBoff(c *Case) {
	b := &backoff.Backoff{Min: time.Duration(c.Min), Max: time.Duration(c.Max), Factor: float64(c.Factor), Jitter: c.Kind == "boffj"}
	c.Ds = nil
	for _, o := range c.Ops {
		if o == 1 {
			b.Reset()
		} else {
			c.Ds = append(c.Ds, int64(b.Duration()))
		}
	}
}

func runAll(cases []Case, out *childOut) {
	sem := make(chan struct{}, 40)
	var wg sync.WaitGroup
	order := make([]int, 0, len(cases))
	for pass := 0; pass < 2; pass++ { // the schedules with a library timeout in them go first
		for i := range cases {
			slow := cases[i].Kind == "loop" && (cases[i].stopAllowance() > 20*time.Second || cases[i].Stay > 0)
			if (pass == 0) == slow {
				order = append(order, i)
			}
		}
	}
	for _, i := range order {
		c := &cases[i]
		if c.Kind == "boff" || c.Kind == "boffj" {
			runBoff(c)
			continue
		}
		if c.Reuse != "" {
			if c.Round > 0 {
				continue // run by its group, below
			}
			var rounds []*Case
			for j := range cases {
				if cases[j].Reuse != "" && cases[j].Group == c.Group {
					rounds = append(rounds, &cases[j])
				}
			}
			wg.Add(1)
			go func() {
				defer wg.Done()
				sh := &shared{}
				for _, rc := range rounds { // one after the other, on the same client object
					runLoop(rc, sh)
				}
			}()
			continue
		}
		wg.Add(1)
		sem <- struct{}{}
		go func() {
			defer wg.Done()
			defer func() { <-sem }()
			runLoop(c, nil)
		}()
		time.Sleep(7 * time.Millisecond) // stagger the launches
	}
	wg.Wait()
}
