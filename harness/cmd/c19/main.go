// c19: correspondence + oracle for "the reconnecting client comes back, backs off after failures,
// stops when told".  Runs the real reconws.ReconWs (Reconnect and ReconnectAuth) against in-process
// fault-injecting access + websocket servers that follow a scripted schedule of behaviours per
// attempt and a scripted cancellation point; plus an exact differential of backoff.Backoff
// (Duration/Reset) against the model's backoff_dur.  The real work happens in a child process
// (re-exec with VERIF_C19_CHILD=1) under a watchdog, so the harness always terminates and reports.
package main

import (
	"encoding/json"
	"fmt"
	"io/ioutil"
	"os"
	"os/exec"
	"path/filepath"
	"time"

	"github.com/practable/relay/verifharness/lib"
	log "github.com/sirupsen/logrus"
)

type childOut struct {
	Cases        []Case          `json:"cases"`
	Violations   []lib.Violation `json:"violations"`
	Distribution map[string]int  `json:"distribution"`
	Notes        []string        `json:"notes"`
}

func main() {
	a := lib.ParseArgs()
	log.SetOutput(ioutil.Discard)
	if os.Getenv("VERIF_C19_CHILD") == "1" {
		child(a)
		return
	}
	res := lib.NewResult("C19", a.Seed, a.Tier)
	res.ShardSize = 120
	if err := os.MkdirAll(a.Out, 0o755); err != nil {
		fmt.Fprintln(os.Stderr, err)
		os.Exit(2)
	}
	budget := 240 * time.Second
	if a.Tier == "thorough" {
		budget = 25 * time.Minute
	}
	args := []string{"-seed", fmt.Sprint(a.Seed), "-tier", a.Tier, "-out", a.Out}
	if a.Replay != "" {
		args = append(args, "-replay", a.Replay)
	}
	if a.N > 0 {
		args = append(args, "-n", fmt.Sprint(a.N))
	}
	cmd := exec.Command(os.Args[0], args...)
	cmd.Env = append(os.Environ(), "VERIF_C19_CHILD=1")
	errf, _ := os.Create(filepath.Join(a.Out, "child.stderr"))
	cmd.Stderr = errf
	cmd.Stdout = errf
	done := make(chan error, 1)
	if err := cmd.Start(); err != nil {
		fmt.Fprintln(os.Stderr, err)
		os.Exit(2)
	}
	go func() { done <- cmd.Wait() }()
	var cerr error
	frozen := false
	select {
	case cerr = <-done:
	case <-time.After(budget):
		frozen = true
		_ = cmd.Process.Kill()
		<-done
	}
	errf.Close()
	var co childOut
	b, rerr := os.ReadFile(filepath.Join(a.Out, "child.json"))
	if rerr == nil {
		rerr = json.Unmarshal(b, &co)
	}
	if frozen || cerr != nil || rerr != nil {
		tail, _ := os.ReadFile(filepath.Join(a.Out, "child.stderr"))
		if len(tail) > 3000 {
			tail = tail[len(tail)-3000:]
		}
		what := "crashed"
		if frozen {
			what = "did not finish within the watchdog budget"
		}
		res.Violate(lib.Violation{Clause: "client-crashed-or-froze", Case: -1,
			Detail: fmt.Sprintf("the process running the real reconws client %s (%v / %v): %s", what, cerr, rerr, string(tail)),
			Replay: map[string]interface{}{"seed": a.Seed, "tier": a.Tier}, Key: "client-crashed-or-froze"})
	}
	coq := make([]string, len(co.Cases))
	for i, c := range co.Cases {
		coq[i] = c.coq()
		res.Cases = append(res.Cases, c)
		if c.Kind == "loop" {
			res.Sample(c)
		}
	}
	res.Violations = append(res.Violations, co.Violations...)
	for k, v := range co.Distribution {
		res.Distribution[k] = v
	}
	res.Notes = append(res.Notes, co.Notes...)
	res.Evaluations = len(co.Cases)
	if _, err := lib.WriteShards(a.Out, "From Relay Require Import Base.Prelude Model.Reconws Corr.C19.", "case", coq, res.ShardSize); err != nil {
		fmt.Fprintln(os.Stderr, err)
		os.Exit(2)
	}
	if err := res.Write(a.Out); err != nil {
		fmt.Fprintln(os.Stderr, err)
		os.Exit(2)
	}
}

func child(a lib.Args) {
	out := childOut{Distribution: map[string]int{}}
	rng := lib.NewRng(a.Seed)
	var cases []Case
	if a.Replay != "" {
		var c Case
		lib.ReadReplayCase(a.Replay, &c)
		cases = []Case{c}
	} else {
		nLoop := a.Pick(36, 480)
		nBoff := a.Pick(260, 5000)
		cases = append(cases, genLoopCases(rng, nLoop, a.Tier == "thorough")...)
		for i := 0; i < nBoff; i++ {
			cases = append(cases, genBoffCase(rng.Fork(), i))
		}
		for i := 0; i < nBoff/6; i++ {
			cases = append(cases, genBoffJCase(rng.Fork(), i))
		}
	}
	installHooks()
	startLagMonitor()
	runAll(cases, &out)
	for i := range cases {
		c := &cases[i]
		switch c.Kind {
		case "loop":
			oracleLoop(c, i, &out)
			out.Distribution["loop:"+c.Loop]++
			if c.Via != "" {
				out.Distribution["via:pkg/"+c.Via]++
			}
			out.Distribution["cancel:"+c.Cancel.P]++
			for k, s := range c.Sched {
				if k > c.Cancel.I {
					break
				}
				if c.Loop == "auth" {
					out.Distribution["access:"+s.A]++
				}
				if c.Loop == "plain" || s.A == "ok" {
					out.Distribution["ws:"+s.W]++
				}
			}
			if c.Stay > 0 {
				out.Distribution["long-lived-connection-seconds"] += int(c.Stay / 1e9)
				if c.Trace != nil {
					out.Distribution["long-lived-connection-echoes"] += len(c.Trace.EchoSeq)
				}
			}
			if len(c.Sched) >= 60 {
				out.Distribution["long-outage-schedules"]++
				out.Distribution["long-outage-attempts"] += len(c.Obs)
			}
			out.Distribution["attempts"] += len(c.Obs)
			for _, o := range c.Obs {
				if !o.Timed {
					out.Distribution["timing-discarded-as-ambiguous"]++
				}
				if o.Est {
					out.Distribution["established"]++
				}
			}
		case "boffj":
			oracleBoffJ(c, i, &out)
			out.Distribution["boff-jitter-cases"]++
			out.Distribution["boff-jitter-durations"] += len(c.Ds)
		case "boff":
			oracleBoff(c, i, &out)
			out.Distribution["boff-cases"]++
			out.Distribution["boff-durations"] += len(c.Ds)
		}
	}
	out.Cases = cases
	b, _ := json.Marshal(out)
	if err := os.WriteFile(filepath.Join(a.Out, "child.json"), b, 0o644); err != nil {
		fmt.Fprintln(os.Stderr, err)
		os.Exit(2)
	}
}
