// c19: correspondence + oracle for "the reconnecting client comes back, backs off after failures,
// stops when told".  Runs the real reconws.ReconWs (Reconnect and ReconnectAuth) against in-process
// fault-injecting access + websocket servers that follow a scripted schedule of behaviours per
// attempt and a scripted cancellation point; plus an exact differential of backoff.Backoff
// (Duration/Reset) against the model's backoff_dur.  The real work happens in a child process
// (re-exec with VERIF_C19_CHILD=1) under a watchdog, so the harness always terminates and reports.
package main

import (
	"encoding/json"
	"fmt"
	"io/ioutil"
	"os"
	"os/exec"
	"path/filepath"
	"strings"
	"sync"
	"time"

	"github.com/practable/relay/verifharness/lib"
	log "github.com/sirupsen/logrus"
)

type childOut struct {
	Cases        []Case          `json:"cases"`
	Violations   []lib.Violation `json:"violations"`
	Distribution map[string]int  `json:"distribution"`
	Notes        []string        `json:"notes"`
}

func main() {
	a := lib.ParseArgs()
	log.SetOutput(ioutil.Discard)
	if k := os.Getenv("VERIF_C19_CHILD"); k != "" {
		child(a, k)
		return
	}
	res := lib.NewResult("C19", a.Seed, a.Tier)
	res.ShardSize = 120
	if err := os.MkdirAll(a.Out, 0o755); err != nil {
		fmt.Fprintln(os.Stderr, err)
		os.Exit(2)
	}
	budget := 240 * time.Second
	if a.Tier == "thorough" {
		budget = 25 * time.Minute
	}
	args := []string{"-seed", fmt.Sprint(a.Seed), "-tier", a.Tier, "-out", a.Out}
	if a.Replay != "" {
		args = append(args, "-replay", a.Replay)
	}
	if a.N > 0 {
		args = append(args, "-n", fmt.Sprint(a.N))
	}
	// two children, side by side: "1" runs the schedules, "reuse" (at logrus trace level) re-uses one client
	// object over several rounds - a panic there must not take the other results with it
	kinds := []string{"1", "reuse"}
	if a.Replay != "" {
		var rc Case
		lib.ReadReplayCase(a.Replay, &rc)
		if rc.Kind == "" || rc.Reuse != "" {
			kinds = []string{"reuse"}
		} else {
			kinds = []string{"1"}
		}
	}
	outs := make([]childOut, len(kinds))
	var wg sync.WaitGroup
	var vmu sync.Mutex
	for k, kind := range kinds {
		wg.Add(1)
		go func(k int, kind string) {
			defer wg.Done()
			cmd := exec.Command(os.Args[0], args...)
			cmd.Env = append(os.Environ(), "VERIF_C19_CHILD="+kind)
			errPath := filepath.Join(a.Out, "child-"+kind+".stderr")
			errf, _ := os.Create(errPath)
			cmd.Stderr = errf
			cmd.Stdout = errf
			done := make(chan error, 1)
			if err := cmd.Start(); err != nil {
				fmt.Fprintln(os.Stderr, err)
				os.Exit(2)
			}
			go func() { done <- cmd.Wait() }()
			var cerr error
			frozen := false
			select {
			case cerr = <-done:
			case <-time.After(budget):
				frozen = true
				_ = cmd.Process.Kill()
				<-done
			}
			errf.Close()
			b, rerr := os.ReadFile(filepath.Join(a.Out, "child-"+kind+".json"))
			if rerr == nil {
				rerr = json.Unmarshal(b, &outs[k])
			}
			if frozen || cerr != nil || rerr != nil {
				tail, _ := os.ReadFile(errPath)
				if i := strings.Index(string(tail), "panic:"); i >= 0 && len(tail)-i > 1500 {
					tail = tail[i : i+1500]
				} else if len(tail) > 3000 {
					tail = tail[len(tail)-3000:]
				}
				what := "crashed"
				if frozen {
					what = "did not finish within the watchdog budget"
				}
				clause, where := "client-crashed-or-froze", "the process running the real reconws client against the scripted servers"
				if kind == "reuse" {
					clause, where = "reused-client-crashed-or-froze", "the process that connects, cancels and connects again the SAME reconws.ReconWs / client.Client / status.Status object (several rounds)"
				}
				vmu.Lock()
				res.Violate(lib.Violation{Clause: clause, Case: -1,
					Detail: fmt.Sprintf("%s %s (%v / %v): %s", where, what, cerr, rerr, string(tail)),
					Replay: map[string]interface{}{"seed": a.Seed, "tier": a.Tier, "reuse": kind}, Key: clause})
				vmu.Unlock()
			}
		}(k, kind)
	}
	wg.Wait()
	var coq []string
	for _, co := range outs {
		off := len(res.Cases)
		for _, c := range co.Cases {
			coq = append(coq, c.coq())
			res.Cases = append(res.Cases, c)
			if c.Kind == "loop" {
				res.Sample(c)
			}
		}
		for _, v := range co.Violations {
			if v.Case >= 0 {
				v.Case += off
			}
			res.Violations = append(res.Violations, v)
		}
		for k, v := range co.Distribution {
			res.Distribution[k] += v
		}
		res.Notes = append(res.Notes, co.Notes...)
	}
	res.Evaluations = len(res.Cases)
	if _, err := lib.WriteShards(a.Out, "From Relay Require Import Base.Prelude Model.Reconws Corr.C19.", "case", coq, res.ShardSize); err != nil {
		fmt.Fprintln(os.Stderr, err)
		os.Exit(2)
	}
	if err := res.Write(a.Out); err != nil {
		fmt.Fprintln(os.Stderr, err)
		os.Exit(2)
	}
}

func child(a lib.Args, kind string) {
	out := childOut{Distribution: map[string]int{}}
	rng := lib.NewRng(a.Seed)
	var cases []Case
	if kind == "reuse" {
		// this child also runs at logrus trace level (output discarded): logging must not change behaviour
		log.SetLevel(log.TraceLevel)
		rr := lib.NewRng(a.Seed ^ 0x5eed)
		cases = genReuseCases(rr, a.Pick(3, 5))
		if a.Replay == "" {
			extra := genLoopCases(rr, a.Pick(8, 36), false)
			for _, c := range extra {
				if c.Stay == 0 && len(c.Sched) < 20 && c.stopAllowance() < 20*time.Second {
					c.Note = "trace-level"
					cases = append(cases, c)
				}
			}
		}
	} else if a.Replay != "" {
		var c Case
		lib.ReadReplayCase(a.Replay, &c)
		cases = []Case{c}
	} else {
		nLoop := a.Pick(36, 480)
		nBoff := a.Pick(260, 5000)
		cases = append(cases, genLoopCases(rng, nLoop, a.Tier == "thorough")...)
		for i := 0; i < nBoff; i++ {
			cases = append(cases, genBoffCase(rng.Fork(), i))
		}
		for i := 0; i < nBoff/6; i++ {
			cases = append(cases, genBoffJCase(rng.Fork(), i))
		}
	}
	installHooks()
	startLagMonitor()
	runAll(cases, &out)
	for i := range cases {
		c := &cases[i]
		switch c.Kind {
		case "loop":
			oracleLoop(c, i, &out)
			out.Distribution["loop:"+c.Loop]++
			if c.Reuse != "" {
				out.Distribution["reuse-rounds:"+c.Reuse]++
			}
			if c.Note != "" {
				out.Distribution["loglevel:"+c.Note]++
			}
			for k, s := range c.Sched {
				if k <= c.Cancel.I && s.H != "" {
					out.Distribution["reply-extra:"+s.H]++
				}
			}
			if c.Via != "" {
				out.Distribution["via:"+map[string]string{"client": "pkg/client", "status": "pkg/status", "rwc": "internal/rwc", "file": "internal/file"}[c.Via]]++
			}
			out.Distribution["cancel:"+c.Cancel.P]++
			for k, s := range c.Sched {
				if k > c.Cancel.I {
					break
				}
				if c.Loop == "auth" {
					out.Distribution["access:"+s.A]++
				}
				if c.Loop == "plain" || s.A == "ok" {
					out.Distribution["ws:"+s.W]++
				}
			}
			if c.Stay > 0 {
				out.Distribution["long-lived-connection-seconds"] += int(c.Stay / 1e9)
				if c.Trace != nil {
					out.Distribution["long-lived-connection-echoes"] += len(c.Trace.EchoSeq)
				}
			}
			if len(c.Sched) >= 60 {
				out.Distribution["long-outage-schedules"]++
				out.Distribution["long-outage-attempts"] += len(c.Obs)
			}
			out.Distribution["attempts"] += len(c.Obs)
			for _, o := range c.Obs {
				if !o.Timed {
					out.Distribution["timing-discarded-as-ambiguous"]++
				}
				if o.Est {
					out.Distribution["established"]++
				}
			}
		case "boffj":
			oracleBoffJ(c, i, &out)
			out.Distribution["boff-jitter-cases"]++
			out.Distribution["boff-jitter-durations"] += len(c.Ds)
		case "boff":
			oracleBoff(c, i, &out)
			out.Distribution["boff-cases"]++
			out.Distribution["boff-durations"] += len(c.Ds)
		}
	}
	out.Cases = cases
	b, _ := json.Marshal(out)
	if err := os.WriteFile(filepath.Join(a.Out, "child-"+kind+".json"), b, 0o644); err != nil {
		fmt.Fprintln(os.Stderr, err)
		os.Exit(2)
	}
}
