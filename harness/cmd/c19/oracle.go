package main

import (
	"fmt"
	"math"
	"math/big"

	"github.com/practable/relay/verifharness/lib"
)

// The property's own oracle, written from the statement of C19 and applied to what the servers and
// the dial hook saw of the real client. It does not use the Coq model or the generator's expectations.

const slackBelow = 5 * ms

func oracleLoop(c *Case, idx int, out *childOut) {
	t := c.Trace
	if t == nil {
		return
	}
	bad := func(clause, detail string) {
		if c.Reuse != "" {
			detail = fmt.Sprintf("round %d on the same %s object: %s", c.Round, c.Reuse, detail)
		}
		out.Violations = append(out.Violations, lib.Violation{Clause: clause, Case: idx, Detail: c.Loop + ": " + detail, Replay: *c, Key: clause + ":" + c.Loop})
	}
	n := len(t.Start)
	failed := func(i int) bool { return !c.Obs[i].Est }
	live := func(at int64) bool { return t.CancelAt < 0 || at < t.CancelAt }
	what := func(i int) string {
		if i >= len(c.Sched) {
			return "unscripted"
		}
		s := c.Sched[i]
		if c.Loop == "auth" && s.A != "ok" {
			return "access " + s.A
		}
		return "websocket " + s.W
	}

	// "re-establishes its connection after any failure": behind a strict front end that only works if every
	// request the client makes is well-formed - the first and the n-th
	for i := 0; i < n && i < len(t.Malformed); i++ {
		if t.Malformed[i] != "" {
			bad("request-not-well-formed", fmt.Sprintf("attempt %d sent a request with %s; a strict front end (nginx: 'client sent duplicate header line') answers 400, so behind one the client never comes back after its first failure or drop", i, t.Malformed[i]))
			break
		}
	}
	// every attempt has a cause the servers or the user gave (a failure, an ended connection, an unwritable
	// message): far more attempts than the schedule has steps is a storm of connections
	if n > len(c.Sched)+3 {
		span := t.Start[n-1] - t.Start[0]
		bad("connection-storm", fmt.Sprintf("%d attempts (%d established) in %s against a schedule of %d steps", n, func() (e int) {
			for _, o := range c.Obs {
				if o.Est {
					e++
				}
			}
			return
		}(), fmtDur(span), len(c.Sched)))
	}

	// "re-establishes its connection after any failure": while the context is live a next attempt
	// follows every ended attempt within Max + 1 s
	for i := 0; i < n; i++ {
		if t.End[i] < 0 {
			continue
		}
		limit := t.End[i] + c.Max + 1000*ms
		if i+1 < n {
			if t.Start[i+1] > limit && live(limit) {
				bad("no-retry-within-max", fmt.Sprintf("attempt %d (%s) ended at %s, the next one started only at %s", i, what(i), fmtDur(t.End[i]), fmtDur(t.Start[i+1])))
			}
		} else if live(limit) {
			bad("no-retry-after-failure", fmt.Sprintf("attempt %d (%s) ended at %s; the context stayed live until %s and no further attempt was made", i, what(i), fmtDur(t.End[i]), fmtDur(t.CancelAt)))
		}
	}
	if n == 0 && live(c.Max+1000*ms) {
		bad("no-attempt-at-all", fmt.Sprintf("the client was started and its context stayed live until %s, yet it never contacted the access or the websocket server", fmtDur(t.CancelAt)))
	}
	if t.ReturnedAt >= 0 && live(t.ReturnedAt+20*ms) {
		bad("returned-while-live", fmt.Sprintf("the reconnect loop returned at %s although its context was live until %s", fmtDur(t.ReturnedAt), fmtDur(t.CancelAt)))
	}

	// "waits between failed attempts that grow from the configured minimum up to the configured
	// maximum and reset after a successful connection"
	streak := 0 // consecutive failed attempts before attempt i
	for i := 1; i < n; i++ {
		if failed(i - 1) {
			streak++
		} else {
			streak = 0
		}
		if streak == 0 {
			// attempt i-1 was an established connection: "waits ... reset after a successful connection" - whatever
			// ended it, the next attempt comes with at most the reset wait
			if t.End[i-1] >= 0 && !t.Lagged[i] {
				if gapES := t.Start[i] - t.End[i-1]; gapES > c.Min+c.Min*6/10+150*ms {
					bad("wait-not-reset-after-success", fmt.Sprintf("attempt %d follows the established connection %d (%s), yet it came only %s after that connection ended (minimum %s)", i, i-1, what(i-1), fmtDur(gapES), fmtDur(c.Min)))
				}
			}
			continue
		}
		gapSS := t.Start[i] - t.Start[i-1]
		if gapSS < c.Min-slackBelow {
			bad("gap-below-minimum", fmt.Sprintf("attempt %d started %s after failed attempt %d (%s); configured minimum %s", i, fmtDur(gapSS), i-1, what(i-1), fmtDur(c.Min)))
		} else if streak >= 3 && gapSS < 2*c.Min-slackBelow {
			bad("waits-not-growing", fmt.Sprintf("after %d consecutive failures attempt %d started only %s after the previous one (minimum %s, maximum %s)", streak, i, fmtDur(gapSS), fmtDur(c.Min), fmtDur(c.Max)))
		}
		if t.End[i-1] >= 0 && !t.Lagged[i] {
			gapES := t.Start[i] - t.End[i-1]
			if streak == 1 && i >= 2 && !failed(i-2) && gapES > c.Min+c.Min*6/10+150*ms {
				bad("wait-not-reset-after-success", fmt.Sprintf("attempt %d is the second retry after the established connection %d, yet it waited %s (minimum %s)", i, i-2, fmtDur(gapES), fmtDur(c.Min)))
			}
		}
	}

	// the same clause, with the configured factor 2: after j consecutive failures the wait has grown to
	// min(Max, Min*2^(j-1)) - and it stays at Max however long the outage lasts. One-sided: a sleep never
	// returns early, so start-to-start can only be longer.
	streak = 0
	for i := 1; i < n; i++ {
		if failed(i - 1) {
			streak++
		} else {
			streak = 0
			continue
		}
		want := c.Max
		if streak-1 < 62 {
			if w := new(big.Int).Lsh(big.NewInt(c.Min), uint(streak-1)); w.Cmp(big.NewInt(c.Max)) < 0 {
				want = w.Int64()
			}
		}
		if gapSS := t.Start[i] - t.Start[i-1]; gapSS < want-slackBelow && gapSS >= c.Min-slackBelow {
			bad("wait-below-backoff-schedule", fmt.Sprintf("after %d consecutive failures attempt %d started only %s after the previous one; with Min %s, Max %s, Factor 2 the wait has grown to %s by then", streak, i, fmtDur(gapSS), fmtDur(c.Min), fmtDur(c.Max), fmtDur(want)))
			break
		}
	}

	// a long-lived healthy connection: the server never failed, so there is exactly one upgrade, and every
	// numbered message handed to r.Out (at least 1 s before the cancellation) comes back on r.In, in order
	if c.Stay > 0 {
		ups, first := 0, -1
		for i := 0; i < n; i++ {
			if c.Obs[i].Est && (i >= len(c.Sched) || c.Sched[i].W == "acceptstay") {
				ups++
				if first < 0 {
					first = i
				}
			}
		}
		if first >= 0 {
			for i := first + 1; i < n; i++ {
				if live(t.Start[i]) {
					bad("healthy-connection-abandoned", fmt.Sprintf("the server upgraded attempt %d at %s and never failed, yet the client made attempt %d at %s (%d upgrades in all) while its context was live until %s", first, fmtDur(t.Start[first]), i, fmtDur(t.Start[i]), ups, fmtDur(t.CancelAt)))
					break
				}
			}
		}
		// what has to come out at the far end, in this order: every numbered message (pkg/status run: every
		// decodable report) - nothing else, nothing twice, nothing missing
		garbled := map[int]bool{}
		for _, g := range t.Garbled {
			garbled[g] = true
		}
		var expect []int
		due := 0
		for nmsg, at := range t.SentAt {
			if garbled[nmsg] {
				continue
			}
			expect = append(expect, nmsg)
			if t.CancelAt < 0 || at < t.CancelAt-1000*ms {
				due++
			}
		}
		for k, v := range t.EchoSeq {
			if k >= len(expect) || v != expect[k] {
				bad("message-lost-while-connected", fmt.Sprintf("long-lived connection: the far end received ... %v (position %d holds message %d): a message was lost, duplicated, reordered, or an undecodable one got through", t.EchoSeq[max0(k-2):min(len(t.EchoSeq), k+3)], k, v))
				break
			}
		}
		if len(t.EchoSeq) < due {
			bad("message-lost-while-connected", fmt.Sprintf("long-lived connection: %d numbered messages were sent at least 1 s before the cancellation, only %d arrived at the far end", due, len(t.EchoSeq)))
		}
		if len(t.SentAt) < int(c.Stay/int64(400*ms))-8 || (first >= 0 && len(t.SentAt) == 0) {
			bad("message-lost-while-connected", fmt.Sprintf("long-lived connection: only %d messages could be passed in %s (one is offered every 300 ms)", len(t.SentAt), fmtDur(c.Stay)))
		}
	}

	// "once the context is cancelled it closes the connection and makes no further attempts"
	if t.CancelAt >= 0 && !t.Forced {
		for i := 0; i < n; i++ {
			if t.Start[i] > t.CancelAt+25*ms {
				bad("attempt-after-cancel", fmt.Sprintf("attempt %d contacted the %s %s after the cancellation", i, map[bool]string{true: "access server", false: "websocket server"}[c.Obs[i].Acc], fmtDur(t.Start[i]-t.CancelAt)))
			} else if t.WsStart[i] > t.CancelAt+25*ms {
				bad("attempt-after-cancel", fmt.Sprintf("attempt %d dialled the websocket server %s after the cancellation", i, fmtDur(t.WsStart[i]-t.CancelAt)))
			}
		}
		if !c.Returned {
			bad("not-stopped-after-cancel", fmt.Sprintf("the reconnect loop had not returned %s after the cancellation (allowance for the in-flight attempt to run out its library timeout)", c.stopAllowance()))
		}
		if c.Cancel.P == "conn" && c.Cancel.I < n && c.Obs[c.Cancel.I].Est {
			if t.ConnClosedAt < 0 || t.ConnClosedAt > t.CancelAt+1000*ms {
				seen := "did not see the client's TCP connection end within 3 s"
				if t.ConnClosedAt >= 0 {
					seen = "saw the connection end only at " + fmtDur(t.ConnClosedAt)
				}
				peer := "a peer that answers the close frame"
				if c.Sched[c.Cancel.I].W == "accepthang" {
					peer = "a peer that had gone silent (keeps the TCP connection, answers nothing)"
				}
				bad("connection-not-closed-after-cancel", fmt.Sprintf("cancelled at %s while connected to %s; the server %s", fmtDur(t.CancelAt), peer, seen))
			}
		}
	}

	// "while connected, messages pass in order in both directions"
	for i := 0; i < n; i++ {
		for k, v := range t.InSeq[i] {
			if v != k {
				bad("reordered-or-duplicated", fmt.Sprintf("connection %d: r.In delivered server messages %v", i, t.InSeq[i]))
				break
			}
		}
		for k, v := range t.AckSeq[i] {
			if v != k {
				bad("reordered-or-duplicated", fmt.Sprintf("connection %d: the server received client messages %v", i, t.AckSeq[i]))
				break
			}
		}
		if len(c.Obs[i].Later) > 0 {
			all := append(append([]int{}, t.AckSeq[i]...), c.Obs[i].Later...)
			for k := 1; k < len(all); k++ {
				if all[k] <= all[k-1] {
					bad("reordered-or-duplicated", fmt.Sprintf("the user sent numbered messages all the time; connection %d was reset while the read side was stalled; over this and the following connections the server received ... %v (message %d after message %d)", i, all[max0(k-3):min(len(all), k+3)], all[k], all[k-1]))
					break
				}
			}
		}
		if c.Obs[i].Est && i != c.Cancel.I && i < len(c.Sched) && c.Sched[i].W != "acceptdropw" && c.Sched[i].W != "acceptbad" && c.Sched[i].W != "acceptstay" && len(t.InSeq[i]) != c.Sched[i].K {
			bad("message-lost-while-connected", fmt.Sprintf("connection %d: the server sent %d messages and was acknowledged, r.In delivered %d", i, c.Sched[i].K, len(t.InSeq[i])))
		}
	}
}

// oracleBoffJ: with jitter the documented contract is only "never below Min, never above Max".
func oracleBoffJ(c *Case, idx int, out *childOut) {
	mn, mx := c.Min, c.Max
	if mn <= 0 {
		mn = 100 * ms
	}
	if mx <= 0 {
		mx = 10000 * ms
	}
	for k, d := range c.Ds {
		if (mn < mx && (d < mn || d > mx)) || (mn >= mx && d != mx) {
			out.Violations = append(out.Violations, lib.Violation{Clause: "jittered-backoff-out-of-bounds", Case: idx,
				Detail: fmt.Sprintf("Min %d Max %d Jitter: Duration() number %d returned %d", c.Min, c.Max, k, d), Replay: *c, Key: "jittered-backoff-out-of-bounds"})
			return
		}
	}
}

func max0(a int) int {
	if a < 0 {
		return 0
	}
	return a
}

func min(a, b int) int {
	if a < b {
		return a
	}
	return b
}

// oracleBoff: the documented contract of the backoff counter, computed with exact integers:
// the n-th duration after a reset is Min*2^n clamped to [Min, Max] (for Min < Max, both positive, below
// 2^53 so that float64 is exact) - independent of the Coq model.
func oracleBoff(c *Case, idx int, out *childOut) {
	if c.Min <= 0 || c.Max <= 0 || c.Min >= c.Max || c.Min >= 1<<53 || c.Max > math.MaxInt64-1024 {
		return
	}
	n := 0
	k := 0
	for _, o := range c.Ops {
		if o == 1 {
			n = 0
			continue
		}
		want := new(big.Int).Lsh(big.NewInt(c.Min), uint(n))
		if want.Cmp(big.NewInt(c.Max)) > 0 {
			want = big.NewInt(c.Max)
		}
		if k < len(c.Ds) && want.Cmp(big.NewInt(c.Ds[k])) != 0 {
			out.Violations = append(out.Violations, lib.Violation{Clause: "backoff-not-min-times-2^n-capped", Case: idx,
				Detail: fmt.Sprintf("Min %d Max %d: Duration() number %d after a reset returned %d, expected %s", c.Min, c.Max, n, c.Ds[k], want.String()),
				Replay: *c, Key: "backoff-not-min-times-2^n-capped"})
			return
		}
		n++
		k++
	}
}
