// c06: timed correspondence + oracle for "a connection lasts as long as its token allows and no
// longer". One real crossbar (websocket relay) is assembled in-process from crossbar.Crossbar +
// ttlcode.CodeStore + deny.Store, so tokens can be put straight into the shared code store (nbf /
// exp boundaries and the far-future token need no waiting and no access API). Many probe
// connections run in parallel, each with its own topic and a long-lived partner connection.
// Admission and server-side removal are observed at the relay's own verification points
// (internal/verifhook, built with -tags verif): "ws.afterRegister", "hub.afterDrop", "ws.done".
package main

import (
	"fmt"
	"io/ioutil"
	"net"
	"net/http"
	"os"
	"runtime"
	"strconv"
	"strings"
	"sync"
	"sync/atomic"
	"time"

	"github.com/gorilla/websocket"
	"github.com/practable/relay/internal/access"
	"github.com/practable/relay/internal/crossbar"
	"github.com/practable/relay/internal/deny"
	"github.com/practable/relay/internal/permission"
	"github.com/practable/relay/internal/ttlcode"
	"github.com/practable/relay/internal/verifhook"
	"github.com/practable/relay/verifharness/lib"
	log "github.com/sirupsen/logrus"
)

const (
	sec         = int64(time.Second)
	earlyTol    = 50 * int64(time.Millisecond)
	lateTol     = 1500 * int64(time.Millisecond) // on top of E: one second of the theorem + 500 ms for the OS
	pongWaitNs  = 60 * sec
	watchAfterE = 2200 * int64(time.Millisecond)
)

// Case: the generation parameters (enough to re-run it) and what was observed.
type Case struct {
	Kind    string `json:"kind"`    // life | nbf | exp | other | overflow | longidle | nopong | quiet
	Mode    string `json:"mode"`    // idle | busy | stall | ignoreclose | silent | onemsg | talker
	PhaseMs int    `json:"phase"`   // admission instant within its second
	NbfOff  int64  `json:"nbf_off"` // nbf = s0 + NbfOff  (s0 = the admission second)
	ExpOff  int64  `json:"exp_off"` // exp = s0 + ExpOff
	Other   string `json:"other"`   // "" | topic | aud | denied | scope : a non-time check made to fail
	Pongs   bool   `json:"pongs"`
	Via     string `json:"via"` // "" = token put straight into the code store | api | api-after-long | api-before-long:
	// through POST /session, alone / after / before a 1 h token of the SAME booking id got its session (the partner uses that one)
	Scope  string `json:"scope"`   // "" = read+write | w = write only | r = read only
	Behave string `json:"behave"`  // "" | upong-empty | upong-payload | cping | emptymsg | closeframe | wrongpong | heartbeat
	WatchS int64  `json:"watch_s"` // 0 = until exp + 2.2 s ; else seconds after admission

	// observed (absolute ns / s)
	TLo           int64   `json:"t_lo"`
	THi           int64   `json:"t_hi"`
	Nbf           int64   `json:"nbf"`
	Exp           int64   `json:"exp"`
	WatchUntil    int64   `json:"watch_until"`
	Accepted      bool    `json:"accepted"`
	Dropped       int64   `json:"dropped"`         // server removed the connection at (0 = not seen)
	ClientErr     int64   `json:"client_err"`      // the client's read failed at (0 = not seen / not reading)
	SockClosed    bool    `json:"sock_closed"`     // after the watch the socket answered a read with an error, not a timeout
	LastFrom      int64   `json:"last_from_probe"` // partner last received a probe message at
	LastTo        int64   `json:"last_to_probe"`   // probe last received a partner message at
	UPongAt       []int64 `json:"upong_at"`        // unsolicited pongs the client sent
	CPingAt       []int64 `json:"cping_at"`        // pings the client sent
	CCloseAt      int64   `json:"cclose_at"`       // the client sent a close frame (TCP kept open) at
	EvictAt       int64   `json:"evict_at"`        // the hub evicted this (stalled) reader as slow at
	PartnerClosed int64   `json:"partner_closed"`  // the partner (a 1 h token, possibly of the same booking) lost its connection at (0 = never)
	CPings        int     `json:"cpings"`          // pings the client sent (all of them; cping_at keeps at most 60 times)
	PongsBack     int     `json:"pongs_back"`      // pongs the relay sent in answer to the client's pings
	DataAt        []int64 `json:"data_at"`         // when messages were delivered to the probe (at most 200 kept)
	Note          string  `json:"note,omitempty"`
}

func (c Case) coq() string {
	closed := lib.OptionOf(c.Dropped != 0, lib.Z(c.Dropped))
	data := make([]string, len(c.DataAt))
	for i, d := range c.DataAt {
		data[i] = lib.Z(d)
	}
	zs := func(xs []int64) string {
		out := make([]string, len(xs))
		for i, d := range xs {
			out[i] = lib.Z(d)
		}
		return lib.List(out)
	}
	return lib.App("mkcase", lib.Z(c.TLo), lib.Z(c.THi), lib.Z(c.Nbf), lib.Z(c.Exp),
		lib.Bool(c.Other == ""), lib.Bool(c.Pongs), lib.List(data), zs(c.UPongAt), zs(c.CPingAt), lib.Z(int64(c.PongsBack)),
		lib.OptionOf(c.CCloseAt != 0, lib.Z(c.CCloseAt)), lib.OptionOf(c.EvictAt != 0, lib.Z(c.EvictAt)), lib.Bool(c.PartnerClosed != 0), lib.Z(c.WatchUntil), lib.Z(c.LastFrom), lib.Z(c.LastTo), lib.Bool(c.Accepted), closed)
}

// ---------------------------------------------------------------- the relay under test

type rig struct {
	cs     *ttlcode.CodeStore
	ds     *deny.Store
	hub    *crossbar.Hub
	aud    string
	port   int
	closed chan struct{}

	mu         sync.Mutex
	registered map[string][]int64 // booking id -> ns of every registration
	dropped    map[string][]int64
	done       map[string]int64 // code -> ns
	api        *lib.Relay       // the access API in front of the same code store / deny store / hub
}

func startRig() *rig {
	log.SetOutput(ioutil.Discard)
	log.SetLevel(log.PanicLevel)
	port := lib.FreePorts(1)[0]
	r := &rig{cs: ttlcode.NewDefaultCodeStore(), ds: deny.New(), hub: crossbar.New(), port: port,
		aud: "ws://127.0.0.1:" + strconv.Itoa(port), closed: make(chan struct{}),
		registered: map[string][]int64{}, dropped: map[string][]int64{}, done: map[string]int64{}}
	verifhook.SetController(func(name, key string) {
		now := time.Now().UnixNano()
		switch name {
		case "ws.afterRegister":
			r.mu.Lock()
			r.registered[key] = append(r.registered[key], now)
			r.mu.Unlock()
		case "hub.afterDrop":
			r.mu.Lock()
			r.dropped[key] = append(r.dropped[key], now)
			r.mu.Unlock()
		case "ws.done":
			r.mu.Lock()
			r.done[key] = now
			r.mu.Unlock()
		}
	})
	var wg sync.WaitGroup
	wg.Add(1)
	denied := make(chan string, 64)
	cfg := crossbar.Config{Listen: port, Audience: r.aud, BufferSize: 512, // a reader that is merely slow for a few hundred ms is not to be evicted
		CodeStore: r.cs, DenyStore: r.ds, Hub: r.hub, StatsEvery: time.Second}
	go crossbar.Crossbar(cfg, r.closed, denied, &wg)
	// the access API in front of it (tokens that come the whole way: POST /session -> code -> websocket)
	aport := lib.FreePorts(1)[0]
	r.api = &lib.Relay{AccessURL: "http://127.0.0.1:" + strconv.Itoa(aport), Secret: "c06secret", HTTP: lib.NewHTTPClient()}
	wg.Add(1)
	go access.API(r.closed, &wg, access.Config{AllowNoBookingID: true, CodeStore: r.cs, DenyChannel: denied, DenyStore: r.ds,
		Host: r.api.AccessURL, Hub: r.hub, Port: aport, Secret: r.api.Secret, Target: r.aud})
	for i := 0; i < 1000; i++ {
		c, err := net.DialTimeout("tcp", "127.0.0.1:"+strconv.Itoa(aport), 50*time.Millisecond)
		if err == nil {
			c.Close()
			break
		}
		time.Sleep(5 * time.Millisecond)
	}
	for i := 0; i < 1000; i++ {
		c, err := net.DialTimeout("tcp", "127.0.0.1:"+strconv.Itoa(port), 50*time.Millisecond)
		if err == nil {
			c.Close()
			break
		}
		time.Sleep(5 * time.Millisecond)
	}
	return r
}

func (r *rig) get(m map[string]int64, k string) int64 {
	r.mu.Lock()
	defer r.mu.Unlock()
	return m[k]
}

// after returns the first time >= t recorded under k (0 = none): several connections may share a booking id
func (r *rig) after(m map[string][]int64, k string, t int64) int64 {
	r.mu.Lock()
	defer r.mu.Unlock()
	for _, x := range m[k] {
		if x >= t {
			return x
		}
	}
	return 0
}

// apiCode gets a connection code the whole way through the access API (signed token -> POST /session)
func (r *rig) apiCode(topic, bid string, scopes []string, nbf, exp int64) (string, error) {
	st, _, code := r.api.Session(topic, lib.Sign(r.api.Claims(topic, bid, scopes, nbf, nbf, exp), r.api.Secret))
	if st != 200 || code == "" {
		return "", fmt.Errorf("POST /session answered %d", st)
	}
	return code, nil
}

func (r *rig) code(aud, topic, bid string, scopes []string, nbf, exp int64) string {
	t := permission.NewToken(aud, "session", topic, scopes, nbf, nbf, exp)
	t.SetBookingID(bid)
	return r.cs.SubmitToken(t)
}

// oddHeaders: request headers a proxy or a tracing layer may add to a websocket upgrade - forwarded-for
// in every shape (also malformed and very long), identical request ids on many connections, stale
// request-start stamps. None of them may change anything.
var oddHeaderSeq int64

func oddHeaders() http.Header {
	n := atomic.AddInt64(&oddHeaderSeq, 1)
	h := http.Header{}
	xff := []string{"", "203.0.113.7", "203.0.113.7, 10.0.0.1, 10.0.0.2", "203.0.113.7:51234", "[2001:db8::7]:443", "[2001:db8::7", " ", strings.Repeat("10.1.2.3, ", 400) + "10.9.9.9"}
	if v := xff[n%int64(len(xff))]; v != "" {
		h.Set("X-Forwarded-For", v)
	}
	switch n % 5 {
	case 0:
		h.Set("X-Real-Ip", "198.51.100.23")
	case 1:
		h.Set("Forwarded", "for=\"[2001:db8::7]:4711\";proto=https;by=203.0.113.43")
	case 2:
		h.Set("X-Request-Start", "t=12")
	case 3:
		h.Set("X-Request-Start", "not-a-time")
	}
	h.Set("X-Request-Id", "same-id-on-every-connection")
	h.Set("X-Correlation-Id", "same-id-on-every-connection")
	h.Set("Traceparent", "00-4bf92f3577b34da6a3ce929d0e0e4736-00f067aa0ba902b7-01")
	return h
}

func (r *rig) dial(topic, code string, smallBuf bool) (*websocket.Conn, error) {
	d := websocket.Dialer{HandshakeTimeout: 3 * time.Second, EnableCompression: atomic.LoadInt64(&oddHeaderSeq)%4 == 3}
	if smallBuf {
		d.NetDial = func(network, addr string) (net.Conn, error) {
			c, err := net.DialTimeout(network, addr, 3*time.Second)
			if err == nil {
				c.(*net.TCPConn).SetReadBuffer(4096)
			}
			return c, err
		}
	}
	c, _, err := d.Dial(r.aud+"/session/"+topic+"?code="+code, oddHeaders())
	return c, err
}

// ---------------------------------------------------------------- one case on the real code

func runCase(r *rig, idx int, c *Case, tag string) {
	topic := fmt.Sprintf("c06-%s-%d", tag, idx)
	bid := fmt.Sprintf("bk-%s-%d", tag, idx)
	now := time.Now()
	// partner: a long-lived member of the topic
	pbid := "partner-" + bid
	if strings.HasPrefix(c.Via, "api-") {
		pbid = bid // two tokens of ONE booking with different expiries
	}
	var pcode, earlyCode string
	var err error
	preS0 := time.Now().Unix() + 1
	if int64(time.Now().Nanosecond()) > 700e6 {
		preS0++
	}
	if c.Via == "api-before-long" {
		// the short token's session is requested first, the long one's afterwards
		sc := map[string][]string{"": {"read", "write"}, "w": {"write"}, "r": {"read"}}[c.Scope]
		earlyCode, err = r.apiCode(topic, bid, sc, preS0+c.NbfOff, preS0+c.ExpOff)
		if err != nil {
			c.Note = "session (short token first): " + err.Error()
			return
		}
	}
	if c.Via == "" {
		pcode = r.code(r.aud, topic, pbid, []string{"read", "write"}, now.Unix()-5, now.Unix()+7200)
	} else if pcode, err = r.apiCode(topic, pbid, []string{"read", "write"}, now.Unix()-5, now.Unix()+3600); err != nil {
		c.Note = "partner session: " + err.Error()
		return
	}
	partner, err := r.dial(topic, pcode, false)
	if err != nil {
		c.Note = "partner dial failed: " + err.Error()
		return
	}
	defer partner.Close()
	var pmu sync.Mutex
	var lastFrom, lastTo, clientErr int64 // written by the reader goroutines under pmu
	var dataAt []int64
	var partnerClosed, ending int64
	var received, evictedByHub int64 // bytes of partner messages the probe has read; the relay sent a close frame (= the hub closed this reader's queue)
	defer atomic.StoreInt64(&ending, 1)
	go func() { // partner reader: records when something from the probe arrives
		for {
			_, data, err := partner.ReadMessage()
			if err != nil {
				if atomic.LoadInt64(&ending) == 0 {
					atomic.StoreInt64(&partnerClosed, time.Now().UnixNano()) // not by us: the relay ended the partner's connection
				}
				return
			}
			if len(data) > 0 && data[0] == 'P' {
				pmu.Lock()
				lastFrom = time.Now().UnixNano()
				pmu.Unlock()
			}
		}
	}()
	var wmu sync.Mutex // one writer at a time on the partner socket
	psend := func(b []byte) {
		wmu.Lock()
		partner.SetWriteDeadline(time.Now().Add(2 * time.Second))
		partner.WriteMessage(websocket.BinaryMessage, b)
		wmu.Unlock()
	}

	// the admission second and instant
	s0 := time.Now().Unix() + 1
	if int64(time.Now().Nanosecond()) > 900e6 {
		s0++ // leave time for the preparation below
	}
	if earlyCode != "" {
		s0 = preS0
	}
	c.Nbf, c.Exp = s0+c.NbfOff, s0+c.ExpOff
	scopes := map[string][]string{"": {"read", "write"}, "w": {"write"}, "r": {"read"}}[c.Scope]
	aud, dialTopic := r.aud, topic
	switch c.Other {
	case "topic":
		dialTopic = topic + "-x"
	case "aud":
		aud = "ws://elsewhere.example"
	case "denied":
		r.ds.Deny(bid, s0+3600)
	case "scope":
		scopes = []string{"admin"}
	}
	var code string
	switch {
	case earlyCode != "":
		code = earlyCode
	case c.Via != "":
		if code, err = r.apiCode(topic, bid, scopes, c.Nbf, c.Exp); err != nil {
			c.Note = "session: " + err.Error()
			return
		}
	default:
		code = r.code(aud, topic, bid, scopes, c.Nbf, c.Exp)
	}
	time.Sleep(time.Until(time.Unix(s0, int64(c.PhaseMs)*1e6)))

	c.TLo = time.Now().UnixNano()
	probe, err := r.dial(dialTopic, code, c.Mode == "stall" || c.Mode == "stallevict")
	if err != nil {
		c.Note = "probe dial failed: " + err.Error()
		c.THi = time.Now().UnixNano()
		c.WatchUntil = c.THi
		return
	}
	defer func() { probe.Close(); runtime.KeepAlive(probe) }()
	// serveWs has decided once either point has been passed
	for i := 0; i < 2000; i++ {
		if r.after(r.registered, bid, c.TLo) != 0 || r.get(r.done, code) != 0 {
			break
		}
		time.Sleep(time.Millisecond)
	}
	if t := r.after(r.registered, bid, c.TLo); t != 0 {
		c.Accepted, c.THi = true, t
	} else if t := r.get(r.done, code); t != 0 {
		c.THi = t
	} else {
		c.THi = time.Now().UnixNano()
		c.Note = "no decision observed within 2 s"
	}
	if c.WatchS > 0 {
		c.WatchUntil = c.TLo + c.WatchS*sec
	} else {
		c.WatchUntil = satNs(c.Exp) + watchAfterE
		if c.WatchUntil < c.TLo+2*sec {
			c.WatchUntil = c.TLo + 2*sec
		}
	}
	until := time.Unix(0, c.WatchUntil)

	if !c.Pongs {
		probe.SetPingHandler(func(string) error { return nil }) // swallow pings
	}
	if c.Behave == "wrongpong" {
		// answers the relay's pings, but with a payload of its own
		probe.SetPingHandler(func(string) error {
			return probe.WriteControl(websocket.PongMessage, []byte("not-your-ping"), time.Now().Add(time.Second))
		})
	}
	var pongsBack int64
	probe.SetPongHandler(func(string) error { atomic.AddInt64(&pongsBack, 1); return nil })
	if c.Mode == "ignoreclose" {
		probe.SetCloseHandler(func(int, string) error { return nil })
	}
	// probe reader (not in stall mode)
	if c.Mode != "stall" && c.Mode != "frozen" && c.Mode != "stallevict" {
		go func() {
			for {
				_, data, err := probe.ReadMessage()
				if err != nil {
					// writePump sends an (empty) close frame only when the hub has closed the queue, i.e.
					// when it evicted this reader as slow; expiry and deny close the socket without one
					if websocket.IsCloseError(err, websocket.CloseNoStatusReceived) && c.Behave != "closeframe" {
						atomic.StoreInt64(&evictedByHub, 1)
					}
					pmu.Lock()
					if clientErr == 0 {
						clientErr = time.Now().UnixNano()
					}
					pmu.Unlock()
					return
				}
				if len(data) > 0 && data[0] == 'S' {
					atomic.AddInt64(&received, int64(len(data)))
					pmu.Lock()
					lastTo = time.Now().UnixNano()
					if len(dataAt) < 200 {
						dataAt = append(dataAt, lastTo)
					}
					pmu.Unlock()
				}
			}
		}()
	}
	var pwmu sync.Mutex // one data writer at a time on the probe socket
	pwriteT := func(mt int, b []byte) {
		pwmu.Lock()
		probe.SetWriteDeadline(time.Now().Add(200 * time.Millisecond))
		probe.WriteMessage(mt, b)
		pwmu.Unlock()
	}
	pwrite := func(b []byte) { pwriteT(websocket.BinaryMessage, b) }
	// what else this client does besides reading and answering pings (all of it legitimate)
	var upongAt, cpingAt []int64
	var cpings int64
	var ccloseAt int64
	behaveDone := make(chan struct{})
	go func() {
		defer close(behaveDone)
		if c.Behave == "" || c.Behave == "wrongpong" || !c.Accepted {
			return
		}
		every := 400 * time.Millisecond
		if c.WatchS >= 50 {
			every = 5 * time.Second
		}
		if c.Behave == "cping-fast" {
			every = 40 * time.Millisecond
		}
		time.Sleep(300 * time.Millisecond)
		for k := 0; time.Now().Before(until); k++ {
			now := time.Now().UnixNano()
			ctl := func(mt int, payload []byte) error {
				return probe.WriteControl(mt, payload, time.Now().Add(time.Second))
			}
			switch c.Behave {
			case "upong-empty":
				if ctl(websocket.PongMessage, nil) == nil && len(upongAt) < 60 {
					upongAt = append(upongAt, now)
				}
			case "upong-payload":
				if ctl(websocket.PongMessage, []byte("heartbeat-"+strconv.Itoa(k))) == nil && len(upongAt) < 60 {
					upongAt = append(upongAt, now)
				}
			case "cping":
				if ctl(websocket.PingMessage, []byte("are-you-there")) == nil {
					atomic.AddInt64(&cpings, 1)
					if len(cpingAt) < 60 {
						cpingAt = append(cpingAt, now)
					}
				}
			case "cping-fast": // a keep-alive ping of 100 bytes every 40 ms, in the middle of the traffic
				if ctl(websocket.PingMessage, []byte(strings.Repeat("k", 96)+fmt.Sprintf("%04d", k%10000))) == nil {
					atomic.AddInt64(&cpings, 1)
					if len(cpingAt) < 60 {
						cpingAt = append(cpingAt, now)
					}
				}
			case "heartbeat": // both, alternating
				if k%2 == 0 {
					if ctl(websocket.PongMessage, []byte("hb")) == nil && len(upongAt) < 60 {
						upongAt = append(upongAt, now)
					}
				} else if ctl(websocket.PingMessage, nil) == nil {
					atomic.AddInt64(&cpings, 1)
					if len(cpingAt) < 60 {
						cpingAt = append(cpingAt, now)
					}
				}
			case "emptymsg":
				pwriteT(websocket.TextMessage, []byte{})
				pwriteT(websocket.BinaryMessage, []byte{})
			case "closeframe":
				// a close frame with a status; the client then keeps the TCP connection open
				if ctl(websocket.CloseMessage, websocket.FormatCloseMessage(websocket.CloseNormalClosure, "bye")) == nil {
					ccloseAt = now
				}
				return
			}
			time.Sleep(every)
		}
	}()
	switch c.Mode {
	case "busy", "ignoreclose":
		// traffic both ways every 50 ms, through and past the expiry
		for k := 0; time.Now().Before(until); k++ {
			psend([]byte("S" + strconv.Itoa(k)))
			pwrite([]byte("P" + strconv.Itoa(k)))
			time.Sleep(50 * time.Millisecond)
		}
	case "stall":
		// the probe never reads; the partner pushes enough to fill the path, then trickles
		big := make([]byte, 256*1024)
		big[0] = 'S'
		for k := 0; k < 40 && time.Now().Before(until); k++ {
			psend(big)
		}
		for k := 0; time.Now().Before(until); k++ {
			psend([]byte("S" + strconv.Itoa(k)))
			pwrite([]byte("P" + strconv.Itoa(k)))
			time.Sleep(100 * time.Millisecond)
		}
	case "stallevict":
		// the probe never reads and the partner keeps pushing until the hub evicts the probe as a slow
		// reader (queue full behind a blocked write); the probe then goes on sending: its expiry falls
		// into the window in which its writer is still inside the blocked write (up to writeWait)
		big := make([]byte, 256*1024)
		big[0] = 'S'
		small := []byte("S" + strings.Repeat("q", 1023))
		for k := 0; k < 3000 && time.Now().Before(until); k++ {
			if r.after(r.dropped, bid, c.TLo) != 0 {
				break
			}
			if k < 40 {
				psend(big) // clogs the path: the relay's writer blocks inside a write
			} else {
				psend(small) // fills the queue behind it
			}
		}
		for w := 0; w < 100 && r.after(r.dropped, bid, c.TLo) == 0; w++ {
			time.Sleep(10 * time.Millisecond)
		}
		c.EvictAt = r.after(r.dropped, bid, c.TLo)
		if c.EvictAt == 0 {
			c.Note = "flood did not get the stalled reader evicted"
		}
		for k := 0; time.Now().Before(until); k++ {
			pwrite([]byte("P" + strconv.Itoa(k)))
			time.Sleep(100 * time.Millisecond)
		}
	case "burst":
		// the partner sends 60 messages of 1 KB back to back every 10 ms: the probe's queue in the relay
		// is often not empty; the probe itself sends a message every 100 ms
		body := []byte("S" + strings.Repeat("b", 1023))
		sent := int64(0)
		for k := 0; time.Now().Before(until); k++ {
			// paced by what the reader has confirmed (in bytes: the relay merges queued messages into one
			// frame): never more than about 250 messages ahead of a reader that can read at all
			if c.Scope != "w" {
				for w := 0; w < 40 && sent-atomic.LoadInt64(&received) > 250*1024; w++ {
					time.Sleep(5 * time.Millisecond)
				}
			}
			for n := 0; n < 60; n++ {
				psend(body)
			}
			sent += 60 * int64(len(body))
			if k%10 == 0 {
				pwrite([]byte("P" + strconv.Itoa(k)))
			}
			time.Sleep(10 * time.Millisecond)
		}
	case "onemsg":
		// one message delivered about a second after joining, then nothing: the socket is left
		// with the write deadline of that one data write
		time.Sleep(time.Until(time.Unix(0, c.TLo+sec)))
		psend([]byte("S-once"))
		time.Sleep(time.Until(until))
	case "talker":
		// a message every second for the whole watch
		for k := 0; time.Now().Before(until); k++ {
			psend([]byte("S" + strconv.Itoa(k)))
			time.Sleep(time.Second)
		}
	default: // idle / silent: one exchange well after the expiry only
		probeAt := time.Unix(0, satNs(c.Exp)+1600*int64(time.Millisecond))
		if c.Kind == "life" && probeAt.Before(until) {
			time.Sleep(time.Until(probeAt))
			psend([]byte("S-after"))
			pwrite([]byte("P-after"))
		}
		time.Sleep(time.Until(until))
	}
	time.Sleep(150 * time.Millisecond) // let in-flight messages land
	c.Dropped = r.after(r.dropped, bid, c.TLo)
	if c.Mode != "stallevict" && atomic.LoadInt64(&evictedByHub) != 0 && c.Dropped != 0 {
		// the hub evicted this reader for a full queue (a starved machine): legitimate relay behaviour;
		// the eviction goes into the model's timeline, the case is not judged as an early end
		c.EvictAt = c.Dropped
	}
	if c.Dropped > c.WatchUntil {
		c.Dropped = 0 // after the watch: not part of the observation
	}
	// is the socket really closed? (a read must fail with something else than a timeout)
	if c.Mode == "stallevict" {
		// the path to this client is clogged; data sent to a socket the relay has closed is answered
		// with a reset, so a following write fails
		for n := 0; n < 6 && !c.SockClosed; n++ {
			probe.SetWriteDeadline(time.Now().Add(200 * time.Millisecond))
			if err := probe.WriteMessage(websocket.BinaryMessage, []byte("x")); err != nil {
				c.SockClosed = true
			}
			time.Sleep(100 * time.Millisecond)
		}
	} else if c.Mode == "stall" || c.Mode == "frozen" {
		deadline := time.Now().Add(1500 * time.Millisecond)
		probe.SetReadDeadline(deadline)
		for {
			_, _, err := probe.ReadMessage()
			if err != nil {
				c.SockClosed = !lib.IsTimeout(err)
				break
			}
		}
	} else {
		time.Sleep(50 * time.Millisecond)
		pmu.Lock()
		c.SockClosed = clientErr != 0
		pmu.Unlock()
	}
	pmu.Lock()
	c.LastFrom, c.LastTo, c.ClientErr, c.DataAt = lastFrom, lastTo, clientErr, append([]int64{}, dataAt...)
	<-behaveDone
	c.UPongAt, c.CPingAt, c.CCloseAt, c.PongsBack = upongAt, cpingAt, ccloseAt, int(atomic.LoadInt64(&pongsBack))
	c.CPings = int(atomic.LoadInt64(&cpings))
	c.PartnerClosed = atomic.LoadInt64(&partnerClosed)
	pmu.Unlock()
}

// ---------------------------------------------------------------- generation

func gen(rng *lib.Rng, tier string, n int) []Case {
	var cs []Case
	phases := []int{100, 500, 900}
	modes := []string{"idle", "busy", "stall", "ignoreclose"}
	// lifetimes 1-4 s at the three phases, every mode
	k := 0
	for life := int64(1); life <= 4; life++ {
		for _, ph := range phases {
			m := modes[(k+rng.Intn(2))%4]
			k++
			cs = append(cs, Case{Kind: "life", Mode: m, PhaseMs: ph + rng.Range(-30, 30), NbfOff: -int64(rng.Range(0, 5)), ExpOff: life, Pongs: true})
		}
	}
	for i := 0; i < n; i++ {
		cs = append(cs, Case{Kind: "life", Mode: modes[rng.Intn(4)], PhaseMs: rng.Range(20, 950), NbfOff: -int64(rng.Range(0, 3)), ExpOff: int64(rng.Range(1, 4)), Pongs: true})
	}
	// tokens that come the whole way through the access API (POST /session -> code -> websocket): alone,
	// and as the second / the first of two tokens of ONE booking with different expiries (the other, a
	// 1 h token, is the partner's)
	for i, via := range []string{"api", "api-after-long", "api-before-long", "api-after-long", "api-before-long", "api"} {
		cs = append(cs, Case{Kind: "life", Mode: []string{"idle", "busy"}[i%2], Via: via, PhaseMs: []int{150, 500, 850}[i%3] + rng.Range(-30, 30),
			NbfOff: -int64(rng.Range(1, 3)), ExpOff: int64(2 + i%3), Pongs: true})
	}
	// a stalled reader that the hub evicts as slow, whose token expires while its writer is still inside
	// the blocked write: expiry must still close the socket and stop what it sends from being relayed
	for i := 0; i < 3; i++ {
		cs = append(cs, Case{Kind: "life", Mode: "stallevict", Via: []string{"", "api", ""}[i], PhaseMs: 200 + 250*i, NbfOff: -1, ExpOff: int64(2 + i), Pongs: true})
	}
	// a client that sends keep-alive pings of its own in the middle of bursty traffic, with every scope
	for i, sc := range []string{"", "w", "r", ""} {
		cs = append(cs, Case{Kind: "life", Mode: "burst", Behave: "cping-fast", Scope: sc, Via: []string{"", "", "api", "api"}[i], PhaseMs: 200 + 150*i,
			NbfOff: -1, ExpOff: int64(3 + i%2), Pongs: true})
	}
	// legitimate client behaviours besides reading and answering pings, on the idle and busy cases
	behaviours := []string{"upong-empty", "upong-payload", "cping", "emptymsg", "closeframe"}
	nb := 0
	for i := range cs {
		if (cs[i].Mode == "idle" || cs[i].Mode == "busy") && cs[i].ExpOff >= 2 {
			if nb < len(behaviours) || rng.Chance(1, 2) {
				cs[i].Behave = behaviours[nb%len(behaviours)]
				nb++
			}
		}
	}
	// not-before boundary: nbf one or two seconds ahead / exactly this second
	cs = append(cs,
		Case{Kind: "nbf", Mode: "idle", PhaseMs: 500, NbfOff: 1, ExpOff: 3, Pongs: true},
		Case{Kind: "nbf", Mode: "idle", PhaseMs: 300, NbfOff: 2, ExpOff: 4, Pongs: true},
		Case{Kind: "nbf", Mode: "idle", PhaseMs: 500, NbfOff: 0, ExpOff: 2, Pongs: true},
		// expiry boundary: exp one/two seconds ago (refused), exp = this second (accepted, zero timer)
		Case{Kind: "exp", Mode: "idle", PhaseMs: 500, NbfOff: -5, ExpOff: -1, Pongs: true},
		Case{Kind: "exp", Mode: "idle", PhaseMs: 200, NbfOff: -5, ExpOff: -2, Pongs: true},
		Case{Kind: "exp", Mode: "idle", PhaseMs: 500, NbfOff: -5, ExpOff: 0, Pongs: true},
		Case{Kind: "exp", Mode: "busy", PhaseMs: 100, NbfOff: -5, ExpOff: 0, Pongs: true},
		// the malformed stream: good times, another check fails
		Case{Kind: "other", Mode: "idle", PhaseMs: 500, NbfOff: -1, ExpOff: 2, Other: "topic", Pongs: true},
		Case{Kind: "other", Mode: "idle", PhaseMs: 500, NbfOff: -1, ExpOff: 2, Other: "aud", Pongs: true},
		Case{Kind: "other", Mode: "idle", PhaseMs: 500, NbfOff: -1, ExpOff: 2, Other: "denied", Pongs: true},
		Case{Kind: "other", Mode: "idle", PhaseMs: 500, NbfOff: -1, ExpOff: 2, Other: "scope", Pongs: true},
		// far-future tokens around the int64 bound of time.Duration (F12a): must stay open
		Case{Kind: "overflow", Mode: "idle", PhaseMs: 500, NbfOff: -1, ExpOff: 10000000000, Pongs: true, WatchS: 3},
		Case{Kind: "overflow", Mode: "busy", PhaseMs: 200, NbfOff: -1, ExpOff: 9223372037, Pongs: true, WatchS: 3},
		Case{Kind: "overflow", Mode: "idle", PhaseMs: 700, NbfOff: -1, ExpOff: 9223372036, Pongs: true, WatchS: 3},
	)
	// one long scenario next to everything else: three connections with 300 s tokens joined at the
	// start - silent, one message received at t = 1 s then quiet, a talker - must all still be
	// joined after the first ping (54 s); thorough: after the second one too (108 s)
	w := int64(62)
	if tier == "thorough" {
		w = 116
	}
	for _, m := range []string{"silent", "onemsg", "talker"} {
		cs = append(cs, Case{Kind: "quiet", Mode: m, PhaseMs: 300, NbfOff: -1, ExpOff: 300, Pongs: true, WatchS: w})
	}
	// a peer that goes silent without closing - it stops reading and answering the moment it has
	// joined (frozen client, network loss without FIN/RST): the relay must give it up when the read
	// deadline passes, 60 s after it joined
	cs = append(cs, Case{Kind: "quiet", Mode: "frozen", PhaseMs: 300, NbfOff: -1, ExpOff: 300, Pongs: false, WatchS: w})
	// and across the relay's own ping: a client that answers it with a payload of its own, and one
	// that sends heartbeat pongs and pings of its own every 5 s
	cs = append(cs, Case{Kind: "quiet", Mode: "silent", Behave: "wrongpong", PhaseMs: 300, NbfOff: -1, ExpOff: 300, Pongs: true, WatchS: w},
		Case{Kind: "quiet", Mode: "silent", Behave: "heartbeat", PhaseMs: 300, NbfOff: -1, ExpOff: 300, Pongs: true, WatchS: w})
	if tier == "thorough" {
		cs = append(cs,
			Case{Kind: "longidle", Mode: "idle", PhaseMs: 500, NbfOff: -1, ExpOff: 3600, Pongs: true, WatchS: 130},
			Case{Kind: "nopong", Mode: "idle", PhaseMs: 500, NbfOff: -1, ExpOff: 3600, Pongs: false, WatchS: 75},
			Case{Kind: "longidle", Mode: "idle", PhaseMs: 100, NbfOff: -1, ExpOff: 70, Pongs: true},
		)
	}
	return cs
}

// satNs converts seconds to ns, saturating well below the int64 limit (far-future expiries)
func satNs(s int64) int64 {
	if s > 9000000000 {
		return 9000000000 * sec
	}
	return s * sec
}

// ---------------------------------------------------------------- the property's own oracle

func oracle(c Case, idx int, res *lib.Result) {
	bad := func(clause, detail string) {
		res.Violate(lib.Violation{Clause: clause, Case: idx, Detail: fmt.Sprintf("%s/%s phase %d ms, nbf=s0%+d exp=s0%+d: %s", c.Kind, c.Mode, c.PhaseMs, c.NbfOff, c.ExpOff, detail),
			Replay: c, Key: clause + ":" + c.Kind + ":" + c.Mode})
	}
	if c.Note != "" || c.TLo == 0 {
		return
	}
	E := satNs(c.Exp)
	if c.Accepted {
		if c.THi/sec < c.Nbf {
			bad("accepted-outside-window", "joined before the token's not-before second")
		}
		if c.TLo/sec > c.Exp {
			bad("accepted-outside-window", "joined after the token's expiry second")
		}
	}
	if c.TLo/sec != c.THi/sec {
		return // the admission second is ambiguous: timing clauses are not judged
	}
	if !c.Accepted {
		if c.Other == "" && c.Nbf <= c.TLo/sec && c.THi/sec < c.Exp {
			bad("valid-token-refused", "a code for a currently valid token was refused")
		}
		return
	}
	if c.Mode == "frozen" {
		// no pong ever: not before the read deadline can have passed, and then for good
		if c.Dropped != 0 && c.Dropped < c.TLo+pongWaitNs-earlyTol && c.Dropped < E-earlyTol {
			bad("closed-early", "dropped before the read deadline could have passed")
		}
		limit := c.THi + pongWaitNs + lateTol
		if c.WatchUntil >= limit {
			detail := ""
			switch {
			case c.Dropped == 0:
				detail = fmt.Sprintf("still listed and served %.1f s after it joined", float64(c.WatchUntil-c.TLo)/1e9)
			case c.Dropped > limit:
				detail = fmt.Sprintf("given up only %.1f s after it joined", float64(c.Dropped-c.TLo)/1e9)
			case !c.SockClosed:
				detail = "removed from the hub but its socket was not closed by the relay"
			}
			if detail != "" {
				res.Violate(lib.Violation{Clause: "silent-peer-not-dropped", Case: idx, Key: "silent-peer-not-dropped", Replay: c,
					Detail: "a peer that stopped reading and answers no ping (no FIN/RST) must be given up when the read deadline passes, 60 s (+1.5 s) after joining: " + detail})
			}
		}
		return
	}
	if c.Kind == "quiet" {
		// the client reads, answers every ping, nobody cancelled, the token has minutes left
		if c.Dropped != 0 && c.Dropped < E-earlyTol {
			what := map[string]string{"silent": "silent", "onemsg": "quiet-after-traffic", "talker": "talker"}[c.Mode]
			if c.Behave != "" {
				what = c.Behave
			}
			clause := "closed-before-expiry:" + what
			res.Violate(lib.Violation{Clause: clause, Case: idx, Key: clause, Replay: c,
				Detail: fmt.Sprintf("%s connection with a 300 s token, client answering pings: the relay itself closed it %.1f s after it joined (%.0f s before its expiry); messages delivered to it before: %d",
					c.Mode, float64(c.Dropped-c.TLo)/1e9, float64(E-c.Dropped)/1e9, len(c.DataAt))})
		}
		return
	}
	if c.PartnerClosed != 0 {
		what := "partner"
		if strings.HasPrefix(c.Via, "api-") {
			what = "sibling-of-the-same-booking"
		}
		res.Violate(lib.Violation{Clause: "closed-before-expiry:" + what, Case: idx, Key: "closed-before-expiry:" + what, Replay: c,
			Detail: fmt.Sprintf("%s/%s via %q: the OTHER connection of the topic (a 1 h token%s) was closed by the relay %.3f s after the probe joined (probe's own expiry: +%d s)",
				c.Kind, c.Mode, c.Via, map[bool]string{true: " of the same booking id", false: ""}[strings.HasPrefix(c.Via, "api-")], float64(c.PartnerClosed-c.TLo)/1e9, c.ExpOff)})
	}
	if c.Mode != "stallevict" && c.EvictAt != 0 {
		return // evicted as a slow reader under load: discarded (counted), the model judges it with the eviction in its timeline
	}
	if c.Mode == "stallevict" {
		if c.EvictAt == 0 {
			return // the eviction did not happen: nothing to judge (counted as a note)
		}
		if c.WatchUntil >= E+lateTol {
			if !c.SockClosed {
				bad("open-after-expiry", "evicted stalled reader: its socket was still open (writes still accepted) 2.2 s after its expiry")
			}
			if c.LastFrom > E+lateTol {
				bad("traffic-after-expiry", fmt.Sprintf("evicted stalled reader: a message FROM it was relayed %.3f s after its expiry", float64(c.LastFrom-E)/1e9))
			}
		}
		return
	}
	if c.CPings > 0 {
		// every ping the client sent while the connection was up must be answered with a pong
		// (those of the last 300 ms before the end may still be on their way)
		end := c.Dropped
		if end == 0 || end > E {
			end = E
		}
		sentEarly := 0
		for _, t := range c.CPingAt {
			if t < end-300*int64(time.Millisecond) {
				sentEarly++
			}
		}
		if c.PongsBack < sentEarly {
			bad("client-ping-unanswered", fmt.Sprintf("of the first %d pings the client sent (well before the connection ended) the relay answered only %d with a pong (scope %q, mode %s)", sentEarly, c.PongsBack, c.Scope, c.Mode))
		}
	}
	if c.Behave == "closeframe" {
		// the client itself ended it: only "not before the close frame" is the relay's business here
		if c.CCloseAt != 0 && c.Dropped != 0 && c.Dropped < c.CCloseAt-earlyTol && c.Dropped < E-earlyTol {
			bad("closed-early", "relay ended the connection before the client's close frame and before its expiry")
		}
		return
	}
	// ended by the relay before E although the client reads, answers pings and nobody cancelled
	if c.Behave != "" && c.Dropped != 0 && c.Dropped < E-earlyTol {
		res.Violate(lib.Violation{Clause: "closed-before-expiry:" + c.Behave, Case: idx, Key: "closed-before-expiry:" + c.Behave, Replay: c,
			Detail: fmt.Sprintf("%s/%s client that reads, answers pings and also does '%s' (unsolicited pongs sent: %d, pings sent: %d): the relay itself closed it %.3f s after it joined, %.3f s before its expiry",
				c.Kind, c.Mode, c.Behave, len(c.UPongAt), len(c.CPingAt), float64(c.Dropped-c.TLo)/1e9, float64(E-c.Dropped)/1e9)})
		return
	}
	if c.Dropped != 0 && c.Dropped < E-earlyTol && c.Pongs && c.Mode != "stall" {
		bad("closed-early", fmt.Sprintf("relay ended the connection %.3f s before its expiry", float64(E-c.Dropped)/1e9))
	}
	if !c.Pongs {
		// a client that answers no ping may be dropped from 60 s on, not before
		if c.Dropped != 0 && c.Dropped < c.TLo+pongWaitNs-earlyTol && c.Dropped < E-earlyTol {
			bad("closed-early", "dropped before the read deadline could have passed")
		}
	}
	// still there well after E
	if c.WatchUntil >= E+lateTol {
		if c.Dropped == 0 || c.Dropped > E+lateTol {
			d := "never within the watch"
			if c.Dropped != 0 {
				d = fmt.Sprintf("%.3f s after E", float64(c.Dropped-E)/1e9)
			}
			bad("open-after-expiry", "still a member of the relay after E + 1.5 s (removed: "+d+")")
		} else if !c.SockClosed {
			bad("open-after-expiry", "removed from the hub but the socket was still open after the watch")
		}
		if c.LastFrom > E+lateTol {
			bad("traffic-after-expiry", fmt.Sprintf("a message FROM the expired connection was relayed %.3f s after E", float64(c.LastFrom-E)/1e9))
		}
		if c.LastTo > E+lateTol {
			bad("traffic-after-expiry", fmt.Sprintf("a message TO the expired connection was relayed %.3f s after E", float64(c.LastTo-E)/1e9))
		}
	}
}

func main() {
	a := lib.ParseArgs()
	res := lib.NewResult("C06", a.Seed, a.Tier)
	rng := lib.NewRng(a.Seed)

	// unit-level evidence for F12a: the int64 product itself
	farTTL := int64(10000000000) // a variable: the constant expression would not compile
	wraps := time.Duration(farTTL)*time.Second < 0
	res.Extra = map[string]interface{}{"time.Duration(1e10)*time.Second<0": wraps}

	var cases []Case
	if a.Replay != "" {
		var c Case
		lib.ReadReplayCase(a.Replay, &c)
		cases = []Case{c}
	} else {
		cases = gen(rng, a.Tier, a.Pick(50, 200))
	}
	r := startRig()
	watchdog := time.AfterFunc(20*time.Minute, func() {
		fmt.Fprintln(os.Stderr, "c06: watchdog")
		os.Exit(3)
	})
	defer watchdog.Stop()

	// the long cases (watched for 50 s or more) run beside everything else from the start
	var longWg sync.WaitGroup
	var short []int
	for i := range cases {
		if cases[i].WatchS >= 50 || cases[i].ExpOff >= 50 && cases[i].ExpOff < 1000 {
			longWg.Add(1)
			go func(i int) {
				defer longWg.Done()
				runCase(r, i, &cases[i], strconv.FormatInt(a.Seed, 10))
			}(i)
		} else {
			short = append(short, i)
		}
	}
	// waves of at most 32 parallel cases keep the relay (and the clock) unloaded
	const wave = 32
	for lo := 0; lo < len(short); lo += wave {
		hi := lo + wave
		if hi > len(short) {
			hi = len(short)
		}
		var wg sync.WaitGroup
		for n := lo; n < hi; n++ {
			wg.Add(1)
			go func(n int) {
				defer wg.Done()
				time.Sleep(time.Duration(n-lo) * 7 * time.Millisecond)
				runCase(r, short[n], &cases[short[n]], strconv.FormatInt(a.Seed, 10))
			}(n)
		}
		wg.Wait()
	}
	longWg.Wait()

	coq := make([]string, len(cases))
	for i, c := range cases {
		oracle(c, i, res)
		coq[i] = c.coq()
		res.Count("kind:" + c.Kind)
		res.Count("mode:" + c.Mode)
		res.Count("phase:" + strconv.Itoa((c.PhaseMs+50)/100*100))
		if c.Accepted {
			res.Count("accepted")
		} else {
			res.Count("refused")
		}
		if c.Other != "" {
			res.Count("other:" + c.Other)
		}
		if c.Behave != "" {
			res.Count("behave:" + c.Behave)
		}
		if c.Via != "" {
			res.Count("via:" + c.Via)
		}
		if c.Mode != "stallevict" && c.EvictAt != 0 {
			res.Count("discarded:evicted-under-load")
		}
		if c.Scope != "" {
			res.Count("scope:" + c.Scope)
		}
		if c.TLo/sec != c.THi/sec {
			res.Count("ambiguous-discarded")
		}
		if c.Dropped != 0 {
			res.Count("server-close-observed")
			if c.Accepted && c.ExpOff < 100 {
				off := (c.Dropped - satNs(c.Exp)) / 1e8 // tenths of a second after E
				res.Count("close-offset-ds:" + strconv.FormatInt(off, 10))
			}
		}
		if c.Note != "" {
			res.Count("note:" + strings.SplitN(c.Note, ":", 2)[0])
			res.Notes = append(res.Notes, fmt.Sprintf("case %d: %s", i, c.Note))
		}
		res.Sample(c)
		res.Cases = append(res.Cases, c)
	}
	res.Evaluations = len(cases)
	if _, err := lib.WriteShards(a.Out, "From Relay Require Import Base.Prelude Model.Lifetime Corr.C06.", "case", coq, res.ShardSize); err != nil {
		fmt.Fprintln(os.Stderr, err)
		os.Exit(2)
	}
	if err := res.Write(a.Out); err != nil {
		fmt.Fprintln(os.Stderr, err)
		os.Exit(2)
	}
}
