// c04: correspondence + oracle for "read and write scopes are enforced on every connection".
// One topic per case, 2-3 participants whose tokens carry arbitrary subsets of a pool of real and
// look-alike scopes, random traffic between them on one real relay. Observed: who was registered,
// the can_read / can_write flags in /status, and every payload each participant received.
package main

import (
	"bytes"
	"fmt"
	"net/http"
	"os"
	"sort"
	"time"

	"github.com/practable/relay/verifharness/cmd/c03/hubkit"
	"github.com/practable/relay/verifharness/lib"
	log "github.com/sirupsen/logrus"
)

type Op struct {
	K      string   `json:"k"`              // join (issue + connect at once) | issue | connect | noise | leave | send
	What   string   `json:"what,omitempty"` // noise: session | badsig | status | bids
	N      uint64   `json:"n"`
	TT     string   `json:"tt,omitempty"`
	Scopes []string `json:"scopes"`
	MT     int      `json:"mt,omitempty"`
	ID     uint64   `json:"id,omitempty"`
	Seq    int      `json:"seq,omitempty"`
	Slow   bool     `json:"slow,omitempty"`   // join with a 4 KiB receive buffer (a reader that will lag)
	Fill   int      `json:"fill,omitempty"`   // send: bytes of filler derived from (id, sender, seq) after the header
	NB     bool     `json:"nb,omitempty"`     // send: no waiting afterwards (burst)
	PX     string   `json:"px,omitempty"`     // join: the token's connection-type claim; "" = session, "(empty)" = the empty string
	Via    string   `json:"via,omitempty"`    // join: "api" = present the code on the URI the access API returned, else on /session/{topic}
	Wrap   int      `json:"wrap,omitempty"`   // send: 0 plain payload, 1.. wrapped as a stats command (JSON)
	Size   int      `json:"size,omitempty"`   // send: total payload size in bytes (-1 = empty message); 0 = just the header
	Reason bool     `json:"reason,omitempty"` // leave: with a close frame whose reason text is a self-identifying payload (ID, Seq)
}

func (o Op) prefix() string {
	switch o.PX {
	case "":
		return "session"
	case "(empty)":
		return ""
	}
	return o.PX
}

// path on which the code is presented
func (o Op) path() string {
	if o.Via == "api" {
		return "/" + o.prefix() + "/" + o.TT
	}
	return "/session/" + o.TT
}

func (o Op) payload() []byte {
	if o.Size != 0 {
		n := o.Size
		if n < 0 {
			n = 0
		}
		return hubkit.PayloadSized(o.ID, o.N, o.Seq, o.TT, n)
	}
	if o.Fill > 0 {
		return hubkit.PayloadFill(o.ID, o.N, o.Seq, o.TT, o.Fill)
	}
	tag := string(hubkit.Payload(o.ID, o.N, o.Seq, o.TT))
	switch o.Wrap {
	case 1:
		return []byte(`{"cmd":"update","note":"` + tag + `"}`)
	case 2:
		return []byte(`{"CMD":"update","note":"` + tag + `"}`)
	case 3:
		return []byte(`{"note":"` + tag + `","Cmd":"update","extra":{"a":[1,2]}}`)
	case 4:
		return []byte(`{"cmd":"UPDATE","note":"` + tag + `"}`)
	}
	return []byte(tag)
}

func (o Op) tiny() bool { return o.Size == -1 || (o.Size > 0 && o.Size < 12) }

// sized gives some sends a size at one of the thresholds (a few large ones per history is enough)
func sized(r *lib.Rng, o Op) Op {
	if r.Chance(1, 5) {
		o.Size = hubkit.Thresholds[r.Intn(len(hubkit.Thresholds))]
		if o.Size == 0 {
			o.Size = -1
		}
	}
	return o
}

type Seen struct {
	N        uint64   `json:"n"`
	Joined   bool     `json:"joined"`
	Refused  string   `json:"refused,omitempty"`
	CanRead  bool     `json:"can_read"`
	CanWrite bool     `json:"can_write"`
	Scopes   []string `json:"scopes"`
	IDs      []uint64 `json:"ids"`
}

// a connection that fails in the middle of a message announces partialAnnounced bytes and sends partialSent
const partialAnnounced, partialSent = 1000, 400

type Case struct {
	Level   string `json:"level,omitempty"` // log level the relay ran this case at (panic = silent, debug, trace)
	Ops     []Op   `json:"ops"`
	Seen    []Seen `json:"seen"`
	Kind    string `json:"kind,omitempty"`
	Discard string `json:"discard,omitempty"`
}

const bufferSize = 128

// the first eight are walked through exhaustively, the last two (look-alikes of write) are added at random
var pool = []string{"read", "write", "Read", " read", "readwrite", "relay:admin", "host", "", "Write", "write ", "READ", " Write ", "\uff52\uff45\uff41\uff44", "wr\u0456te", "relay:stats", "relay", "relay:"}

func coqStrs(ss []string) string {
	xs := make([]string, len(ss))
	for i, s := range ss {
		xs[i] = lib.Str(s)
	}
	return lib.List(xs)
}

func (o Op) coq() string {
	switch o.K {
	case "join", "connect":
		return lib.App("OJoin", lib.App("mkreq", lib.N(o.N), lib.Str(o.path()), lib.Str(o.TT), coqStrs(o.Scopes), lib.Nat(bufferSize)))
	case "leave", "partial": // a connection that dies mid-message is simply gone
		return lib.App("OLeave", lib.N(o.N))
	}
	size := len(hubkit.PayloadFill(o.ID, o.N, o.Seq, o.TT, 0)) + o.Fill
	if o.Fill == 0 {
		size = len(o.payload())
	}
	if o.tiny() {
		// a message too short to identify itself: no payload symbol on the model side
		return lib.App("OSend", lib.N(o.N), lib.N(uint64(o.MT)), lib.N(uint64(size)), "[]")
	}
	return lib.App("OSend", lib.N(o.N), lib.N(uint64(o.MT)), lib.N(uint64(size)), "["+lib.N(o.ID)+"]")
}

func (c Case) coq() string {
	if c.Discard != "" {
		return "([], [])" // kept only so that case numbers stay aligned
	}
	noCode := map[uint64]bool{}
	for _, s := range c.Seen {
		if s.Refused == "session" {
			noCode[s.N] = true
		}
	}
	// the hub script: a connection exists from the moment its code is redeemed; requests that only
	// reach the access API (issue, noise) are not hub events
	ops := []string{}
	for _, o := range c.Ops {
		if !noCode[o.N] && (o.K == "join" || o.K == "connect" || o.K == "leave" || o.K == "send" || o.K == "partial") {
			ops = append(ops, o.coq())
		}
	}
	seen := []string{}
	for _, s := range c.Seen {
		if noCode[s.N] {
			continue
		}
		ids := make([]string, len(s.IDs))
		for j, v := range s.IDs {
			ids[j] = lib.N(v)
		}
		seen = append(seen, lib.Tuple(lib.N(s.N), lib.Bool(s.Joined), lib.Bool(s.CanRead), lib.Bool(s.CanWrite), lib.List(ids)))
	}
	return lib.Tuple(lib.List(ops), lib.List(seen))
}

func has(ss []string, x string) bool {
	for _, s := range ss {
		if s == x {
			return true
		}
	}
	return false
}

func subset(mask int, r *lib.Rng) []string {
	var ss []string
	for i, s := range pool {
		if mask&(1<<uint(i)) != 0 {
			ss = append(ss, s)
		}
	}
	// order must not matter, nor repetition
	for i := len(ss) - 1; i > 0; i-- {
		j := r.Intn(i + 1)
		ss[i], ss[j] = ss[j], ss[i]
	}
	if len(ss) > 0 && r.Chance(1, 8) {
		ss = append(ss, ss[r.Intn(len(ss))])
	}
	return ss
}

var nextName uint64 = 1000
var nextID uint64 = 1

func genCase(r *lib.Rng, mask int) []Op {
	tt := []string{"t4", "t4/x", "s"}[r.Intn(3)]
	nP := r.Range(2, 3)
	type part struct {
		scopes []string
		name   uint64
	}
	parts := make([]*part, nP)
	parts[0] = &part{scopes: subset(mask|r.Intn(512)<<8, r)}
	for i := 1; i < nP; i++ {
		m := r.Intn(131072)
		switch r.Intn(4) {
		case 0:
			m |= 3 // reader and writer
		case 1:
			m |= 1
		case 2:
			m |= 2
		}
		parts[i] = &part{scopes: subset(m, r)}
	}
	var ops []Op
	for _, p := range parts {
		nextName++
		p.name = nextName
		ops = append(ops, Op{K: "join", N: p.name, TT: tt, Scopes: p.scopes})
	}
	seq := 0
	for i, n := 0, r.Range(6, 14); i < n; i++ {
		p := parts[r.Intn(nP)]
		if r.Chance(1, 12) {
			nextID++
			ops = append(ops, Op{K: "leave", N: p.name, TT: tt, ID: nextID, Seq: seq, Reason: r.Bool()})
			nextName++
			p.name = nextName
			ops = append(ops, Op{K: "join", N: p.name, TT: tt, Scopes: p.scopes})
			continue
		}
		seq++
		nextID++
		ops = append(ops, sized(r, Op{K: "send", N: p.name, TT: tt, MT: 1 + r.Intn(2), ID: nextID, Seq: seq}))
	}
	if r.Chance(1, 2) {
		// somebody leaves politely, with a close frame that carries a reason text; the others go on
		p := parts[r.Intn(nP)]
		nextID++
		ops = append(ops, Op{K: "leave", N: p.name, TT: tt, ID: nextID, Seq: seq + 3, Reason: true})
		nextName++
		p.name = nextName
		ops = append(ops, Op{K: "join", N: p.name, TT: tt, Scopes: p.scopes})
	}
	if r.Chance(1, 3) {
		// somebody dies in the middle of a message; the others go on
		p := parts[r.Intn(nP)]
		nextID++
		ops = append(ops, Op{K: "partial", N: p.name, TT: tt, MT: 1 + r.Intn(2), ID: nextID, Seq: seq + 1, Size: partialAnnounced})
		q := parts[r.Intn(nP)]
		if q != p {
			nextID++
			ops = append(ops, Op{K: "send", N: q.name, TT: tt, MT: 1, ID: nextID, Seq: seq + 2})
		}
	}
	return ops
}

// genDeferred: several participants with different scope sets, on the same and on different
// topics, obtain their codes first, in scrambled order and with unrelated requests (other sessions,
// admin and status calls, a badly signed token) reaching the access API in between; only then do
// they connect (also: connect one, then issue for the next). Each connection must get the
// capabilities of ITS OWN token, whatever passed through the access API since the code was issued.
func genDeferred(r *lib.Rng, mask int) []Op {
	tts := [][]string{{"t4", "t4/x"}, {"s", "s2"}, {"d", "d"}}[r.Intn(3)]
	nP := r.Range(2, 4)
	type part struct {
		scopes []string
		tt     string
		name   uint64
	}
	simple := [][]string{{"read"}, {"write"}, {"read", "write"}, {"write", "read"}, {"host"}, {"read", "host"}, {"write", "host"}}
	parts := make([]*part, nP)
	for i := range parts {
		var sc []string
		switch {
		case i == 0 && r.Bool():
			sc = subset(mask|r.Intn(512)<<8, r)
		case r.Chance(2, 3):
			sc = append([]string(nil), simple[r.Intn(len(simple))]...)
		default:
			sc = subset(r.Intn(131072), r)
		}
		nextName++
		parts[i] = &part{scopes: sc, tt: tts[r.Intn(2)], name: nextName}
	}
	// a short read-only or write-only token is always among them
	parts[r.Intn(nP)].scopes = [][]string{{"read"}, {"write"}}[r.Intn(2)]
	noise := func() Op {
		what := []string{"session", "session", "session", "badsig", "status", "bids"}[r.Intn(6)]
		o := Op{K: "noise", What: what, TT: fmt.Sprintf("zz%d", r.Intn(3))}
		if r.Bool() {
			o.Scopes = append([]string(nil), simple[r.Intn(len(simple))]...)
		} else {
			o.Scopes = subset(1+r.Intn(131071), r)
		}
		return o
	}
	var ops []Op
	// random interleaving in which everybody's issue precedes its connect
	state := make([]int, nP) // 0 nothing yet, 1 issued, 2 connected
	eager := r.Chance(1, 3)  // connect A, then issue for B, ...
	for done := 0; done < nP; {
		i := r.Intn(nP)
		switch {
		case state[i] == 0:
			ops = append(ops, Op{K: "issue", N: parts[i].name, TT: parts[i].tt, Scopes: parts[i].scopes})
			state[i] = 1
			if eager && r.Chance(2, 3) {
				continue
			}
		case state[i] == 1:
			waiting := 0
			for _, s := range state {
				if s == 0 {
					waiting++
				}
			}
			if !eager && waiting > 0 && r.Chance(3, 4) {
				continue // codes first, connections later
			}
			ops = append(ops, Op{K: "connect", N: parts[i].name, TT: parts[i].tt, Scopes: parts[i].scopes})
			state[i] = 2
			done++
		default:
			continue
		}
		for k := r.Intn(3); k > 0; k-- {
			ops = append(ops, noise())
		}
	}
	seq := 0
	for i, n := 0, r.Range(6, 12); i < n; i++ {
		p := parts[r.Intn(nP)]
		switch x := r.Intn(12); {
		case x == 0:
			ops = append(ops, noise())
		case x == 1:
			// leave, get a new code, let something else pass, connect again
			nextID++
			ops = append(ops, Op{K: "leave", N: p.name, TT: p.tt, ID: nextID, Seq: seq, Reason: r.Bool()})
			nextName++
			p.name = nextName
			ops = append(ops, Op{K: "issue", N: p.name, TT: p.tt, Scopes: p.scopes}, noise(), Op{K: "connect", N: p.name, TT: p.tt, Scopes: p.scopes})
		default:
			seq++
			nextID++
			ops = append(ops, sized(r, Op{K: "send", N: p.name, TT: p.tt, MT: 1 + r.Intn(2), ID: nextID, Seq: seq}))
		}
	}
	if r.Chance(1, 2) {
		p := parts[r.Intn(nP)]
		nextID++
		ops = append(ops, Op{K: "leave", N: p.name, TT: p.tt, ID: nextID, Seq: seq + 3, Reason: true})
		nextName++
		p.name = nextName
		ops = append(ops, Op{K: "issue", N: p.name, TT: p.tt, Scopes: p.scopes}, Op{K: "connect", N: p.name, TT: p.tt, Scopes: p.scopes})
	}
	if r.Chance(1, 3) {
		p := parts[r.Intn(nP)]
		nextID++
		ops = append(ops, Op{K: "partial", N: p.name, TT: p.tt, MT: 1 + r.Intn(2), ID: nextID, Seq: seq + 1, Size: partialAnnounced})
		q := parts[r.Intn(nP)]
		if q != p {
			nextID++
			ops = append(ops, Op{K: "send", N: q.name, TT: q.tt, MT: 1, ID: nextID, Seq: seq + 2})
		}
	}
	return ops
}

// doNoise sends a request that has nothing to do with the participants of the case.
func doNoise(k *hubkit.Kit, o Op, res *lib.Result) {
	rl := k.Relay
	now := time.Now().Unix()
	switch o.What {
	case "session", "badsig":
		secret := rl.Secret
		if o.What == "badsig" {
			secret = "not-the-secret"
		}
		st, _, _ := rl.Session(o.TT, lib.Sign(rl.Claims(o.TT, "bk-noise", o.Scopes, now-5, now-5, now+3600), secret))
		res.Count(fmt.Sprintf("noise:%s:%d", o.What, st))
	case "status":
		_, st := rl.Status(lib.Sign(rl.Claims("", "", append([]string{"relay:stats"}, o.Scopes...), now-5, now-5, now+3600), rl.Secret))
		res.Count(fmt.Sprintf("noise:status:%d", st))
	default:
		_, st := rl.BidList("deny", lib.Sign(rl.Claims("", "", append([]string{"relay:admin"}, o.Scopes...), now-5, now-5, now+3600), rl.Secret))
		res.Count(fmt.Sprintf("noise:bids:%d", st))
	}
}

type needle struct {
	id, sender uint64
	pat        []byte
}

type finfo struct {
	tiny  int // one-byte messages (they identify nothing)
	tags  []hubkit.Tag
	alien []needle // byte patterns of payloads sent by connections without write scope found in this frame
}

// needlesOf lists recognisable byte patterns of everything the script lets a connection WITHOUT the
// write scope (by its own token) send: the start of its header and stretches of its filler.
func needlesOf(c *Case) []needle {
	scopes := map[uint64][]string{}
	var ns []needle
	for _, o := range c.Ops {
		switch o.K {
		case "join", "issue":
			scopes[o.N] = o.Scopes
		case "leave":
			if o.Reason && !has(scopes[o.N], "write") {
				ns = append(ns, needle{o.ID, o.N, []byte(fmt.Sprintf("<%d,%d,", o.ID, o.N))})
			}
		case "send", "partial":
			if has(scopes[o.N], "write") {
				continue
			}
			pl := o.payload()
			if o.K == "partial" {
				pl = pl[:partialSent]
			}
			hdr := fmt.Sprintf("<%d,%d,", o.ID, o.N)
			if bytes.HasPrefix(pl, []byte("<#")) {
				hdr = fmt.Sprintf("<#%d,%d,", o.ID, o.N)
			}
			if !bytes.HasPrefix(pl, []byte(hdr)) {
				continue // a message too short to identify itself
			}
			ns = append(ns, needle{o.ID, o.N, []byte(hdr)})
			var body []byte
			if gt := bytes.IndexByte(pl, '>'); gt >= 0 && bytes.HasPrefix(pl, []byte("<#")) {
				body = pl[gt+1:]
			}
			for off := 0; off+24 <= len(body) && off < 2048; off += 509 {
				ns = append(ns, needle{o.ID, o.N, body[off : off+24]})
			}
		}
	}
	return ns
}

func newDigest(ns []needle, stats bool) func(*hubkit.Frame) {
	return func(f *hubkit.Frame) {
		tags, junk, tiny := hubkit.ParseTagsTiny(f.Data)
		if junk > 0 && !stats {
			tags = append(tags, hubkit.Tag{ID: 0})
		}
		// on topic stats the relay's own reporter publishes JSON reports, and commands are JSON around
		// the self-identifying payload: bytes outside payloads are expected there and not compared
		fi := finfo{tags: tags, tiny: tiny}
		// a frame that is, byte for byte, a sequence of well-formed payloads with their own fillers has no
		// room for anything else (its senders are judged by the headers); any other frame is searched
		dirty := junk > 0
		for _, t := range tags {
			dirty = dirty || t.BadFill
		}
		for _, n := range ns {
			if dirty && bytes.Contains(f.Data, n.pat) {
				fi.alien = append(fi.alien, n)
			}
		}
		f.Info = fi
		f.Data = nil
	}
}

func tagsOf(p *hubkit.Peer) []hubkit.Tag {
	var out []hubkit.Tag
	for _, f := range p.Frames() {
		out = append(out, f.Info.(finfo).tags...)
	}
	return out
}

// genPrefix: tokens whose connection-type claim is not "session" (shell, Session, other, empty)
// crossed with scope sets that include the host/client scopes of the shell service; the code is
// presented on /session/{topic} or on the URI the access API returned. Whatever the claim says, a
// connection without the exact scopes read or write must not be registered on the relay.
func genPrefix(r *lib.Rng) []Op {
	tt := []string{"t4", "px/1", "s"}[r.Intn(3)]
	pxs := []string{"shell", "shell", "Session", "other", "(empty)", ""}
	sets := [][]string{{"host"}, {"client"}, {"host", "client"}, {"read"}, {"write"}, {"read", "host"}, {"host", "write"},
		{"read", "write"}, {"Read", "host"}, {"client", "readwrite"}, {"host", "relay:admin"}}
	type part struct {
		name uint64
	}
	var ops []Op
	var parts []uint64
	join := func(px, via string, scopes []string) {
		nextName++
		ops = append(ops, Op{K: "join", N: nextName, TT: tt, Scopes: scopes, PX: px, Via: via})
		parts = append(parts, nextName)
	}
	join("", "", []string{"read", "write"})
	join([]string{"", "shell"}[r.Intn(2)], "", []string{"read"})
	for k := r.Range(2, 4); k > 0; k-- {
		join(pxs[r.Intn(len(pxs))], []string{"", "", "api"}[r.Intn(3)], sets[r.Intn(len(sets))])
	}
	seq := 0
	for i, n := 0, r.Range(6, 12); i < n; i++ {
		seq++
		nextID++
		ops = append(ops, sized(r, Op{K: "send", N: parts[r.Intn(len(parts))], TT: tt, MT: 1 + r.Intn(2), ID: nextID, Seq: seq}))
	}
	return ops
}

// genStats: participants on the relay's own topic "stats" (where its status reporter listens for
// {"cmd":"update"} commands and publishes reports): connections without the write scope send such
// commands in several spellings, as text and binary; none of it may reach any other subscriber.
func genStats(r *lib.Rng) []Op {
	tt := "stats"
	var ops []Op
	var parts []uint64
	join := func(scopes []string) {
		nextName++
		ops = append(ops, Op{K: "join", N: nextName, TT: tt, Scopes: scopes})
		parts = append(parts, nextName)
	}
	join([]string{"read", "write"})
	join([]string{"read"})
	join([][]string{{"read", "Write"}, {"read", "stats"}, {"read", "relay:stats"}, {"read", "host"}}[r.Intn(4)])
	if r.Bool() {
		join([]string{"read"})
	}
	seq := 0
	for i, n := 0, r.Range(8, 14); i < n; i++ {
		seq++
		nextID++
		who := parts[r.Intn(len(parts))]
		wrap := r.Intn(5)
		if who == parts[0] && r.Bool() {
			wrap = 0
		}
		ops = append(ops, Op{K: "send", N: who, TT: tt, MT: 1 + r.Intn(2), ID: nextID, Seq: seq, Wrap: wrap})
	}
	return ops
}

// genLag: a read-only reader lags (4 KiB receive buffer, stops reading; large frames from a writer
// block the relay's writer for it) while connections WITHOUT the write scope - a plain reader and
// one whose scopes only look like write - send recognisable frames, between and during the
// writer's burst. Nothing of what they send may turn up anywhere, in headers or in content.
func genLag(r *lib.Rng) []Op {
	tt := []string{"t4", "t4/x", "s"}[r.Intn(3)]
	var ops []Op
	join := func(topic string, scopes []string, slow bool) uint64 {
		nextName++
		ops = append(ops, Op{K: "join", N: nextName, TT: topic, Scopes: scopes, Slow: slow})
		return nextName
	}
	seq := 0
	send := func(n uint64, topic string, fill int, nb bool) {
		seq++
		nextID++
		ops = append(ops, Op{K: "send", N: n, TT: topic, MT: 1 + r.Intn(2), ID: nextID, Seq: seq, Fill: fill, NB: nb})
	}
	type snd struct {
		n  uint64
		tt string
	}
	lag := join(tt, []string{"read"}, true)
	w := join(tt, [][]string{{"write"}, {"write", "read"}, {"host", "write"}}[r.Intn(3)], false)
	mute := []snd{{join(tt, []string{"read"}, false), tt},
		{join(tt, [][]string{{"read", "Write", "write "}, {"Write", "read", "readwrite"}, {"read", " write", "WRITE"}}[r.Intn(3)], false), tt}}
	if r.Bool() {
		other := tt + "2"
		mute = append(mute, snd{join(other, []string{"read", "Write"}, false), other})
		join(other, []string{"read", "write"}, false)
	}
	if r.Bool() {
		join(tt, []string{"read"}, false) // a reader that keeps up
	}
	send(w, tt, r.Range(1, 300), false)
	m := mute[r.Intn(len(mute))]
	send(m.n, m.tt, r.Range(30, 300), false)
	for round := r.Range(1, 2); round > 0; round-- {
		ops = append(ops, Op{K: "stall", N: lag})
		for k := r.Range(9, 11); k > 0; k-- {
			send(w, tt, 1<<20, false)
			if r.Chance(1, 3) {
				m := mute[r.Intn(len(mute))]
				send(m.n, m.tt, []int{100, 3000, 70000, 1 << 20}[r.Intn(4)], true)
			}
		}
		for k := r.Range(20, 40); k > 0; k-- {
			if r.Chance(2, 5) {
				m := mute[r.Intn(len(mute))]
				send(m.n, m.tt, r.Range(40, 3000), true)
			} else {
				send(w, tt, r.Range(40, 3000), true)
			}
		}
		ops = append(ops, Op{K: "unstall", N: lag}, Op{K: "barrier", N: w})
		for _, m := range mute {
			ops = append(ops, Op{K: "barrier", N: m.n})
		}
		ops = append(ops, Op{K: "sync"})
	}
	send(w, tt, 0, false)
	return ops
}

func runCase(k *hubkit.Kit, c *Case, res *lib.Result) []*hubkit.Peer {
	peers := map[uint64]*hubkit.Peer{}
	var order []*hubkit.Peer
	expected := map[uint64]int{}
	flags := map[uint64]hubkit.Report{}
	digest := newDigest(needlesOf(c), c.Kind == "stats")
	stalled := map[uint64]bool{}
	waitAll := func() {
		for _, q := range order {
			if stalled[q.Name] || q.Refused != "" || q.Conn == nil {
				continue
			}
			if ended, _, _ := q.Ended(); ended {
				continue
			}
			want, qq := expected[q.Name], q
			if !hubkit.WaitFor(k.Slack, func() bool { return len(tagsOf(qq)) >= want }) {
				res.Count("send:delivery-wait-expired")
				expected[q.Name] = len(tagsOf(qq))
			}
		}
	}
	for _, o := range c.Ops {
		switch o.K {
		case "noise":
			doNoise(k, o, res)
		case "issue":
			p := k.Issue(o.N, o.TT, o.Scopes)
			peers[o.N] = p
			order = append(order, p)
		case "join", "connect":
			var p *hubkit.Peer
			if o.K == "join" {
				buf := 0
				if o.Slow {
					buf = 4096
				}
				if o.PX != "" || o.Via != "" {
					p = k.IssuePrefix(o.N, o.TT, o.Scopes, o.prefix())
					k.Connect(p, o.path(), digest, buf)
					res.Count("join:prefix-" + o.PX + "-via-" + o.Via + ":" + map[bool]string{true: "registered", false: "refused-" + p.Refused}[p.Refused == ""])
				} else {
					p = k.JoinBuf(o.N, o.TT, "/session/"+o.TT, o.Scopes, digest, buf)
				}
				peers[o.N] = p
				order = append(order, p)
			} else {
				p = peers[o.N]
				k.Connect(p, "/session/"+o.TT, digest, 0)
				res.Count("join:deferred")
			}
			res.Count("join:" + map[bool]string{true: "registered", false: "refused-" + p.Refused}[p.Refused == ""])
			if p.Refused == "" {
				if st, ok := k.Status(); ok {
					flags[o.N] = st[p.UA]
				} else {
					res.Count("status:failed")
				}
			}
		case "leave":
			if p := peers[o.N]; p != nil {
				if o.Reason && p.Refused == "" {
					k.LeaveWithReason(p, hubkit.Payload(o.ID, o.N, o.Seq, o.TT))
					res.Count("leave:with-reason")
					time.Sleep(5 * time.Millisecond) // were the reason relayed, it would be on its way now
				} else {
					k.Leave(p)
				}
			}
		case "partial":
			// the connection fails in the middle of a data message (whatever its scopes): nothing of the
			// part that arrived may be relayed
			if p := peers[o.N]; p != nil && p.Refused == "" && p.Conn != nil {
				k.Partial(p, o.MT, partialAnnounced, o.payload()[:partialSent])
				res.Count("peer:died-mid-message")
			}
		case "send":
			p := peers[o.N]
			if p == nil || p.Refused != "" {
				res.Count("send:skipped-refused-sender")
				continue
			}
			_, acked := k.Send(p, o.MT, o.payload(), !o.NB)
			if !acked && !o.NB {
				res.Count("send:no-ack")
			}
			if o.NB {
				res.Count("send:burst")
			}
			if !has(p.Scopes, "write") {
				res.Count("send:by-non-writer")
				continue
			}
			res.Count("send:by-writer")
			if o.Size != 0 {
				res.Count(fmt.Sprintf("send:size-%d", len(o.payload())))
			}
			// waiting hint only (never compared)
			for _, q := range order {
				if q != p && q.Refused == "" && q.Conn != nil && q.TokenTopic == p.TokenTopic && has(q.Scopes, "read") && !o.tiny() {
					if ended, _, _ := q.Ended(); !ended {
						expected[q.Name]++
					}
				}
			}
			if !o.NB {
				waitAll()
			}
		case "stall":
			peers[o.N].Stall(true)
			stalled[o.N] = true
		case "unstall":
			peers[o.N].Stall(false)
			stalled[o.N] = false
		case "barrier":
			if p := peers[o.N]; p != nil && p.Refused == "" && !k.Barrier(p) {
				res.Count("barrier:no-pong")
			}
		case "sync":
			waitAll()
		}
	}
	time.Sleep(25 * time.Millisecond) // anything delivered where it should not be
	c.Seen = nil
	for _, p := range order {
		s := Seen{N: p.Name, Joined: p.Refused == "", Refused: p.Refused, Scopes: p.Scopes, IDs: []uint64{},
			CanRead: flags[p.Name].CanRead, CanWrite: flags[p.Name].CanWrite}
		if p.Conn != nil {
			for _, t := range tagsOf(p) {
				s.IDs = append(s.IDs, t.ID)
			}
		}
		sort.Slice(s.IDs, func(i, j int) bool { return s.IDs[i] < s.IDs[j] })
		c.Seen = append(c.Seen, s)
		if ended, byServer, _ := p.Ended(); ended && byServer && c.Kind == "lag" {
			c.Discard = "lagging-reader-cut" // its backlog outgrew the buffer: what it got depends on the hub order
		}
	}
	return order
}

func scopeKey(ss []string) string {
	t := append([]string(nil), ss...)
	sort.Strings(t)
	return fmt.Sprintf("%q", t)
}

// oracle: the property statement, read off the tokens' scope lists (exact strings "read"/"write").
func oracle(c Case, idx int, peers []*hubkit.Peer, res *lib.Result) {
	byName := map[uint64]*hubkit.Peer{}
	for _, p := range peers {
		byName[p.Name] = p
	}
	// one-byte messages carry no sender: a connection may have received at most as many as connections
	// WITH the write scope (other than itself) sent on its topic while it was connected
	since, until := map[uint64]int{}, map[uint64]int{}
	for i, o := range c.Ops {
		switch o.K {
		case "join", "connect":
			since[o.N] = i
		case "leave", "partial":
			until[o.N] = i
		}
	}
	for _, p := range peers {
		if p.Conn == nil {
			continue
		}
		got := 0
		for _, f := range p.Frames() {
			got += f.Info.(finfo).tiny
		}
		allowed := 0
		for i, o := range c.Ops {
			if o.K == "send" && o.tiny() && o.Size > 0 && o.N != p.Name && o.TT == p.TokenTopic && i > since[p.Name] && (until[p.Name] == 0 || i < until[p.Name]) {
				if sp := byName[o.N]; sp != nil && has(sp.Scopes, "write") {
					allowed++
				}
			}
		}
		if got > allowed {
			res.Violate(lib.Violation{Clause: "nonwriter-heard", Case: idx, Key: "nonwriter-heard",
				Detail: fmt.Sprintf("connection %d received %d one-byte messages, but connections with write scope sent only %d on its topic while it was connected", p.Name, got, allowed), Replay: c})
		}
	}
	for i, p := range peers {
		rd, wr := has(p.Scopes, "read"), has(p.Scopes, "write")
		s := c.Seen[i]
		if p.Refused == "" && !rd && !wr {
			res.Violate(lib.Violation{Clause: "no-scope-joined", Case: idx, Key: "no-scope-joined",
				Detail: fmt.Sprintf("token with scopes %s (neither read nor write) was registered by the hub", scopeKey(p.Scopes)), Replay: c})
		}
		if p.Refused == "" && (s.CanRead != rd || s.CanWrite != wr) {
			res.Violate(lib.Violation{Clause: "caps-inexact", Case: idx, Key: "caps-inexact",
				Detail: fmt.Sprintf("scopes %s gave can_read=%v can_write=%v in /status", scopeKey(p.Scopes), s.CanRead, s.CanWrite), Replay: c})
		}
		if p.Conn == nil {
			continue
		}
		if !rd && p.NFrames() > 0 {
			res.Violate(lib.Violation{Clause: "nonreader-received", Case: idx, Key: "nonreader-received",
				Detail: fmt.Sprintf("connection %d with scopes %s received %d frames", p.Name, scopeKey(p.Scopes), p.NFrames()), Replay: c})
		}
		for fi, f := range p.Frames() {
			for _, n := range f.Info.(finfo).alien {
				res.Violate(lib.Violation{Clause: "nonwriter-content-heard", Case: idx, Key: "nonwriter-content-heard",
					Detail: fmt.Sprintf("frame %d received by connection %d (scopes %s) contains bytes of message id %d sent by connection %d, whose token (scopes %s) has no write scope", fi, p.Name, scopeKey(p.Scopes), n.id, n.sender, scopeKey(byName[n.sender].Scopes)), Replay: c})
				break
			}
		}
		for _, t := range tagsOf(p) {
			if snd := byName[t.Sender]; t.ID != 0 && snd != nil && !has(snd.Scopes, "write") {
				res.Violate(lib.Violation{Clause: "nonwriter-heard", Case: idx, Key: "nonwriter-heard",
					Detail: fmt.Sprintf("message id %d from connection %d (scopes %s, no write) reached connection %d", t.ID, t.Sender, scopeKey(snd.Scopes), p.Name), Replay: c})
			}
		}
	}
}

func main() {
	a := lib.ParseArgs()
	res := lib.NewResult("C04", a.Seed, a.Tier)
	rng := lib.NewRng(a.Seed)
	k := hubkit.Start(lib.RelayOpts{BufferSize: bufferSize})

	var cases []Case
	if a.Replay != "" {
		var c Case
		lib.ReadReplayCase(a.Replay, &c)
		cases = []Case{c}
	} else {
		n := a.Pick(420, 3072)
		// every subset of the pool turns up as participant 0 once per 256 cases, in seed-dependent order
		off, mul := rng.Intn(256), 2*rng.Intn(128)+1
		for i := 0; i < n; i++ {
			// even cases: session and connect at once; odd cases: codes first, connections later
			if i%2 == 0 {
				cases = append(cases, Case{Ops: genCase(rng.Fork(), (off+(i/2)*mul)%256)})
			} else {
				cases = append(cases, Case{Ops: genDeferred(rng.Fork(), (off+(i/2)*mul)%256)})
			}
		}
		for i, m := 0, a.Pick(30, 240); i < m; i++ {
			cases = append(cases, Case{Ops: genLag(rng.Fork()), Kind: "lag"})
		}
		for i, m := 0, a.Pick(60, 400); i < m; i++ {
			cases = append(cases, Case{Ops: genPrefix(rng.Fork()), Kind: "prefix"})
		}
		for i, m := 0, a.Pick(40, 300); i < m; i++ {
			cases = append(cases, Case{Ops: genStats(rng.Fork()), Kind: "stats"})
		}
	}
	coq := make([]string, len(cases))
	for i := range cases {
		// environment that must not matter: the relay's log level, proxy / tracing headers (every other case
		// gives ALL its connections the same forwarded address and ids), permessage-deflate offered
		if cases[i].Level == "" {
			cases[i].Level = []string{"panic", "debug", "trace"}[i%3]
		}
		if lv, err := log.ParseLevel(cases[i].Level); err == nil {
			log.SetLevel(lv)
		}
		res.Count("log-level:" + cases[i].Level)
		si := uint64(i)
		if i%2 == 0 {
			k.Headers = func(*hubkit.Peer) http.Header { return hubkit.ProxyHeaders(4*si + 1) }
		} else {
			k.Headers = func(p *hubkit.Peer) http.Header { return hubkit.ProxyHeaders(p.Name + si) }
		}
		k.Compress = func(p *hubkit.Peer) bool { return (p.Name+si)%3 == 0 }
		peers := runCase(k, &cases[i], res)
		oracle(cases[i], i, peers, res)
		for _, p := range peers {
			k.Leave(p)
		}
		hubkit.KeepAlive(peers)
		c := cases[i]
		coq[i] = c.coq()
		res.CountN("ops", len(c.Ops))
		if c.Kind != "" {
			res.Count("kind:" + c.Kind)
		}
		if c.Discard != "" {
			res.Count("discarded:" + c.Discard)
		}
		for _, s := range c.Seen {
			res.CountN("payloads-received", len(s.IDs))
			res.Count(fmt.Sprintf("caps:read=%v,write=%v", has(s.Scopes, "read"), has(s.Scopes, "write")))
			res.Count(fmt.Sprintf("scopes:%d", len(s.Scopes)))
		}
		res.Sample(c)
		res.Cases = append(res.Cases, c)
	}
	res.Evaluations = len(cases)
	res.ShardSize = 64
	if _, err := lib.WriteShards(a.Out, "From Relay Require Import Base.Prelude Model.Hub Corr.C03 Corr.C04.", "case", coq, res.ShardSize); err != nil {
		fmt.Fprintln(os.Stderr, err)
		os.Exit(2)
	}
	if err := res.Write(a.Out); err != nil {
		fmt.Fprintln(os.Stderr, err)
		os.Exit(2)
	}
}
