module verif/translator/handlers

go 1.21
