// handlers: regenerates, from the Go source, the ORDER OF STORE OPERATIONS of the request handlers that the
// interleaving model of C07 (coq/Model/RelaySys.v) describes as thread programs.
//
//	handlers -repo <dir> -out <coq/Gen dir>     writes <out>/HandlerGen.v
//
// For each of sessionHandler, denyHandler, allowHandler (internal/access/access.go), serveWs, Hub.drop and the deny
// loop of handleConnections (internal/crossbar/crossbar.go) it emits, in source order, the scheduling points
// (verifhook.Point("name", ..)), the calls on the shared stores (config.DenyStore.X, config.CodeStore.X, ...dcs.X) and
// the sends on the channels that connect the handlers (DenyChannel, hub.register, hub.unregister). Pure readers
// (Now, GetTime, GetTTL) are left out. An operation inside a select is marked as such. Coq (Model/HandlerIR.v) holds
// the programs the model's threads follow and the theorem that ties them to tstep; the generated file carries the
// obligation that the source's sequences, cut at the scheduling points, ARE those programs. This program only reads
// syntax (go/ast); a handler it cannot find makes it exit non-zero (fail closed).
package main

import (
	"bytes"
	"flag"
	"fmt"
	"go/ast"
	"go/parser"
	"go/printer"
	"go/token"
	"os"
	"path/filepath"
	"regexp"
	"strconv"
	"strings"
)

type item struct{ Kind, Name string }

var readers = map[string]bool{"DenyStore.Now": true, "CodeStore.GetTime": true, "CodeStore.GetTTL": true}

var (
	reDeny  = regexp.MustCompile(`(^|\.)DenyStore\.(\w+)$`)
	reCode  = regexp.MustCompile(`(^|\.)CodeStore\.(\w+)$`)
	reDcs   = regexp.MustCompile(`(^|\.)dcs\.(\w+)$`)
	reChans = []struct {
		re   *regexp.Regexp
		name string
	}{
		{regexp.MustCompile(`(^|\.)DenyChannel$`), "DenyChannel"},
		{regexp.MustCompile(`(^|\.)hub\.register$`), "hub.register"},
		{regexp.MustCompile(`(^|\.)hub\.unregister$`), "hub.unregister"},
	}
)

func text(fset *token.FileSet, n ast.Node) string {
	var b bytes.Buffer
	printer.Fprint(&b, fset, n)
	return b.String()
}

// collect walks body in source order
func collect(fset *token.FileSet, body ast.Node) []item {
	var out []item
	var inSelect []ast.Node // stack of CommClause bodies' comm statements
	selectComm := map[ast.Node]bool{}
	ast.Inspect(body, func(n ast.Node) bool {
		if cc, ok := n.(*ast.CommClause); ok && cc.Comm != nil {
			ast.Inspect(cc.Comm, func(m ast.Node) bool {
				if m != nil {
					selectComm[m] = true
				}
				return true
			})
		}
		return true
	})
	_ = inSelect
	mark := func(n ast.Node, s string) string {
		if selectComm[n] {
			return "select:" + s
		}
		return s
	}
	ast.Inspect(body, func(n ast.Node) bool {
		switch x := n.(type) {
		case *ast.CallExpr:
			sel, ok := x.Fun.(*ast.SelectorExpr)
			if !ok {
				return true
			}
			t := text(fset, sel)
			if t == "verifhook.Point" && len(x.Args) > 0 {
				if lit, ok := x.Args[0].(*ast.BasicLit); ok && lit.Kind == token.STRING {
					s, _ := strconv.Unquote(lit.Value)
					out = append(out, item{"HHook", s})
				} else {
					out = append(out, item{"HHook", "?"})
				}
				return true
			}
			for _, p := range []struct {
				re  *regexp.Regexp
				pre string
			}{{reDeny, "DenyStore."}, {reCode, "CodeStore."}, {reDcs, "dcs."}} {
				if m := p.re.FindStringSubmatch(t); m != nil {
					name := p.pre + m[2]
					if !readers[name] {
						out = append(out, item{"HOp", mark(x, name)})
					}
				}
			}
		case *ast.SendStmt:
			t := text(fset, x.Chan)
			for _, c := range reChans {
				if c.re.MatchString(t) {
					out = append(out, item{"HSend", mark(x, c.name)})
				}
			}
		}
		return true
	})
	return out
}

func findFunc(f *ast.File, name, recv string) *ast.FuncDecl {
	for _, d := range f.Decls {
		fd, ok := d.(*ast.FuncDecl)
		if !ok || fd.Name.Name != name || fd.Body == nil {
			continue
		}
		r := ""
		if fd.Recv != nil && len(fd.Recv.List) == 1 {
			switch t := fd.Recv.List[0].Type.(type) {
			case *ast.StarExpr:
				if id, ok := t.X.(*ast.Ident); ok {
					r = id.Name
				}
			case *ast.Ident:
				r = t.Name
			}
		}
		if r == recv {
			return fd
		}
	}
	return nil
}

func between(items []item, from, to string) ([]item, bool) {
	a, b := -1, -1
	for i, it := range items {
		if it.Kind == "HHook" && it.Name == from && a < 0 {
			a = i
		}
		if it.Kind == "HHook" && it.Name == to {
			b = i
		}
	}
	if a < 0 || b < a {
		return nil, false
	}
	return items[a : b+1], true
}

func coqStr(s string) string { return `"` + strings.ReplaceAll(s, `"`, `""`) + `"` }

func main() {
	repo := flag.String("repo", "/repo", "repository root")
	out := flag.String("out", "", "directory for HandlerGen.v")
	flag.Parse()
	fset := token.NewFileSet()
	parse := func(rel string) *ast.File {
		f, err := parser.ParseFile(fset, filepath.Join(*repo, rel), nil, 0)
		if err != nil {
			fmt.Println("handlers: cannot parse", rel+":", err)
			os.Exit(1)
		}
		return f
	}
	acc := parse("internal/access/access.go")
	cb := parse("internal/crossbar/crossbar.go")
	type want struct {
		key, fn, recv string
		file          *ast.File
		from, to      string
	}
	var res []struct {
		key   string
		items []item
	}
	for _, w := range []want{
		{"session", "sessionHandler", "", acc, "", ""},
		{"deny", "denyHandler", "", acc, "", ""},
		{"allow", "allowHandler", "", acc, "", ""},
		{"ws", "serveWs", "", cb, "", ""},
		{"drop", "drop", "Hub", cb, "", ""},
		{"denyloop", "handleConnections", "", cb, "crossbar.denyReceived", "crossbar.denyProcessed"},
	} {
		fd := findFunc(w.file, w.fn, w.recv)
		if fd == nil {
			fmt.Printf("handlers: function %s (receiver %q) not found - cannot tie the model's %s program to the source\n", w.fn, w.recv, w.key)
			os.Exit(1)
		}
		items := collect(fset, fd.Body)
		if w.from != "" {
			var ok bool
			if items, ok = between(items, w.from, w.to); !ok {
				fmt.Printf("handlers: scheduling points %s .. %s not found in %s\n", w.from, w.to, w.fn)
				os.Exit(1)
			}
		}
		res = append(res, struct {
			key   string
			items []item
		}{w.key, items})
	}
	var b strings.Builder
	b.WriteString("(* GENERATED by translator/handlers from internal/access/access.go and internal/crossbar/crossbar.go - do not edit.\n")
	b.WriteString("   Per handler, in source order: scheduling points, store operations, sends on the connecting channels. *)\n")
	b.WriteString("From Relay Require Import Base.Prelude Model.HandlerIR.\nOpen Scope string_scope.\n\n")
	b.WriteString("Definition gen_handlers : list (string * list hitem) :=\n  [")
	for i, r := range res {
		if i > 0 {
			b.WriteString(";\n   ")
		}
		b.WriteString("(" + coqStr(r.key) + ", [")
		for j, it := range r.items {
			if j > 0 {
				b.WriteString("; ")
			}
			b.WriteString(it.Kind + " " + coqStr(it.Name))
		}
		b.WriteString("])")
	}
	b.WriteString("].\n\n")
	b.WriteString("(* the obligation: cut at the scheduling points, the source's sequences are the programs of the model's threads,\n")
	b.WriteString("   and every store operation of a handler lies between two scheduling points *)\n")
	b.WriteString("Theorem gen_handlers_follow_the_programs : handlers_ok gen_handlers = true.\nProof. vm_compute. reflexivity. Qed.\n")
	if *out == "" {
		fmt.Print(b.String())
		return
	}
	if err := os.WriteFile(filepath.Join(*out, "HandlerGen.v"), []byte(b.String()), 0o644); err != nil {
		fmt.Println("handlers:", err)
		os.Exit(1)
	}
	fmt.Printf("handlers: %d handlers translated\n", len(res))
	for _, r := range res {
		fmt.Printf("  %s:", r.key)
		for _, it := range r.items {
			fmt.Printf(" %s(%s)", it.Kind[1:], it.Name)
		}
		fmt.Println()
	}
}
