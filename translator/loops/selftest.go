package main

import (
	"fmt"
	"reflect"
)

// The self-test corpus: small Go files whose loop shapes and verdicts are known. It runs before
// every translation (and alone under -selftest); the translated shapes are also emitted into
// LoopGen.v as `Example selftest_* : loop_ok (...) = <verdict>` so that the Coq checker's verdict
// on each of them is re-checked on every run too.

type selfResult struct {
	name  string
	loops []loop
	want  []bool
}

type selfCase struct {
	name      string
	src       string
	wantTerms [][]string // per loop, per case: "chan/Term"
	wantSees  []bool
	wantDef   []bool
	wantOK    []bool
	wantFail  bool // the translator must refuse this file
}

var corpus = []selfCase{
	{name: "return_on_closed", src: `package p
func f(closed <-chan struct{}, c chan int) {
	for {
		select {
		case <-closed:
			return
		case v := <-c:
			_ = v
		}
	}
}`, wantTerms: [][]string{{"closed/Return", "c/Fall"}}, wantSees: []bool{true}, wantDef: []bool{false}, wantOK: []bool{true}},

	{name: "break_only_leaves_select", src: `package p
import "time"
func f(closed <-chan struct{}) {
	go func() {
		for {
			select {
			case <-closed:
				break
			case <-time.After(time.Second):
				{
					g()
				}
			}
		}
	}()
}
func g() {}`, wantTerms: [][]string{{"closed/BreakSelect", "time.After(time.Second)/Fall"}}, wantSees: []bool{true}, wantDef: []bool{false}, wantOK: []bool{false}},

	{name: "labelled_break_leaves_loop", src: `package p
import "context"
func f(ctx context.Context, c chan int) {
LOOP:
	for {
		select {
		case <-ctx.Done():
			g()
			break LOOP
		case v, ok := <-c:
			if !ok {
				return
			}
			_ = v
			continue
		}
	}
}
func g() {}`, wantTerms: [][]string{{"ctx.Done()/BreakLabel", "c/Continue"}}, wantSees: []bool{false}, wantDef: []bool{false}, wantOK: []bool{true}},

	{name: "label_on_select_is_a_select_break", src: `package p
func f(closed chan struct{}) {
	for {
	S:
		select {
		case <-closed:
			break S
		}
	}
}`, wantTerms: [][]string{{"closed/BreakSelect"}}, wantSees: []bool{true}, wantDef: []bool{false}, wantOK: []bool{false}},

	{name: "field_closed_and_statements_around_select", src: `package p
import "time"
type S struct {
	closed chan struct{}
	in     chan int
}
func (s *S) run() {
	for {
		time.Sleep(time.Second)
		select {
		case <-s.closed:
			return
		case v := <-s.in:
			if v == 0 {
				continue
			}
		case s.in <- 1:
		}
		g()
	}
}
func g() {}`, wantTerms: [][]string{{"s.closed/Return", "s.in/Fall", "send:s.in/Fall"}}, wantSees: []bool{true}, wantDef: []bool{false}, wantOK: []bool{true}},

	{name: "sees_closed_but_never_listens", src: `package p
func f(closed <-chan struct{}, c chan int) {
	for {
		select {
		case <-c:
		}
	}
}`, wantTerms: [][]string{{"c/Fall"}}, wantSees: []bool{true}, wantDef: []bool{false}, wantOK: []bool{false}},

	{name: "no_closed_in_scope_is_exempt", src: `package p
type H struct{ reg chan int }
func (h *H) run() {
	for {
		select {
		case c := <-h.reg:
			for i := range []int{c} {
				select {
				case h.reg <- i:
				default:
				}
			}
		}
	}
}`, wantTerms: [][]string{{"h.reg/Fall"}}, wantSees: []bool{false}, wantDef: []bool{false}, wantOK: []bool{true}},

	{name: "default_arm_never_blocks", src: `package p
func f(closed <-chan struct{}) {
	for {
		select {
		case <-closed:
			return
		default:
		}
	}
}`, wantTerms: [][]string{{"closed/Return"}}, wantSees: []bool{true}, wantDef: []bool{true}, wantOK: []bool{false}},

	{name: "loop_without_select_and_select_without_loop", src: `package p
func f(closed <-chan struct{}, c chan int) {
	select {
	case <-closed:
	case <-c:
	}
	for {
		if g() {
			break
		}
	}
}
func g() bool { return true }`, wantTerms: nil, wantOK: nil},

	{name: "refuse_conditional_exit_in_shutdown_case", src: `package p
func f(closed <-chan struct{}) {
	for {
		select {
		case <-closed:
			if g() {
				continue
			}
			return
		}
	}
}
func g() bool { return true }`, wantFail: true},

	{name: "refuse_nested_select", src: `package p
func f(closed <-chan struct{}) {
	for {
		if g() {
			select {
			case <-closed:
				return
			}
		}
	}
}
func g() bool { return true }`, wantFail: true},

	{name: "refuse_select_in_conditional_for", src: `package p
func f(closed <-chan struct{}) {
	for g() {
		select {
		case <-closed:
			return
		}
	}
}
func g() bool { return true }`, wantFail: true},

	{name: "refuse_wait_inside_shutdown_case", src: `package p
func f(closed <-chan struct{}, cancelled <-chan struct{}) {
	for {
		select {
		case <-closed:
			g()
			<-cancelled
			return
		case <-cancelled:
			return
		}
	}
}
func g() {}`, wantFail: true},

	{name: "timer_made_once_never_rearmed", src: `package p
import "time"
type S struct{ closed chan struct{} }
func (s *S) sweep() {
	timer := time.NewTimer(time.Minute)
	defer timer.Stop()
	for {
		select {
		case <-s.closed:
			return
		case <-timer.C:
			g()
		}
	}
}
func g() {}`, wantTerms: [][]string{{"s.closed/Return", "oneshot:timer.C/Fall"}}, wantSees: []bool{true}, wantDef: []bool{false}, wantOK: []bool{false}},

	{name: "timer_rearmed_and_ticker_are_periodic", src: `package p
import "time"
func f(closed <-chan struct{}) {
	timer := time.NewTimer(time.Minute)
	ticker := time.NewTicker(time.Second)
	for {
		select {
		case <-closed:
			return
		case <-timer.C:
			timer.Reset(time.Minute)
		case <-ticker.C:
		case <-time.After(time.Second):
		}
	}
}`, wantTerms: [][]string{{"closed/Return", "timer.C/Fall", "ticker.C/Fall", "time.After(time.Second)/Fall"}}, wantSees: []bool{true}, wantDef: []bool{false}, wantOK: []bool{true}},

	{name: "refuse_goto", src: `package p
func f(closed <-chan struct{}) {
L:
	for {
		select {
		case <-closed:
			goto L
		}
	}
}`, wantFail: true},
}

func runOne(sc selfCase) (ls []loop, failed bool, msg string) {
	defer func() {
		if r := recover(); r != nil {
			if f, ok := r.(failure); ok {
				failed, msg = true, f.msg
				return
			}
			panic(r)
		}
	}()
	ls = translateFiles(map[string][]byte{sc.name + ".go": []byte(sc.src)})
	return
}

func selftest() ([]selfResult, bool) {
	ok := true
	var out []selfResult
	for _, sc := range corpus {
		ls, failed, msg := runOne(sc)
		if sc.wantFail {
			if !failed {
				fmt.Printf("loops: self-test %s: expected the translator to refuse, it produced %v\n", sc.name, ls)
				ok = false
			}
			continue
		}
		if failed {
			fmt.Printf("loops: self-test %s: unexpected refusal: %s\n", sc.name, msg)
			ok = false
			continue
		}
		var terms [][]string
		var sees, def, verdict []bool
		for _, l := range ls {
			var t []string
			for _, c := range l.Cases {
				t = append(t, c.Chan+"/"+c.Term)
			}
			terms = append(terms, t)
			sees = append(sees, l.SeesClosed)
			def = append(def, l.HasDefault)
			verdict = append(verdict, loopOK(l))
		}
		if !reflect.DeepEqual(terms, sc.wantTerms) || !reflect.DeepEqual(sees, sc.wantSees) ||
			!reflect.DeepEqual(def, sc.wantDef) || !reflect.DeepEqual(verdict, sc.wantOK) {
			fmt.Printf("loops: self-test %s: got %v sees=%v default=%v ok=%v, want %v sees=%v default=%v ok=%v\n",
				sc.name, terms, sees, def, verdict, sc.wantTerms, sc.wantSees, sc.wantDef, sc.wantOK)
			ok = false
			continue
		}
		out = append(out, selfResult{name: sc.name, loops: ls, want: sc.wantOK})
	}
	return out, ok
}
