// loops: regenerates the for/select loop-shape IR of the relay's service loops from the Go source.
//
//	loops -repo <dir> -out <coq/Gen dir>     writes <out>/LoopGen.v
//	loops -selftest                          runs the built-in corpus of known shapes only
//
// For every `for { ... select { ... } ... }` in the non-test files of internal/relay,
// internal/crossbar, internal/ttlcode and internal/access it emits, per select case, the text of
// the channel expression and how control leaves the case body (Return | BreakLabel | BreakSelect |
// Continue | Fall). Coq (Model/LoopIR.v, Proofs/LoopIR_proofs.v) holds the semantics of these shapes
// and the theorem; this program only reads syntax. Anything it cannot classify makes it exit
// non-zero (fail closed). Standard library only (go/ast, go/parser, go/token).
package main

import (
	"flag"
	"fmt"
	"go/ast"
	"go/parser"
	"go/token"
	"os"
	"path/filepath"
	"sort"
	"strings"
)

type scase struct {
	Chan string
	Term string
}

type loop struct {
	Name       string
	SeesClosed bool
	HasDefault bool
	Cases      []scase
}

var dirs = []string{"internal/relay", "internal/crossbar", "internal/ttlcode", "internal/access"}

type failure struct{ msg string }

func failf(format string, a ...interface{}) { panic(failure{fmt.Sprintf(format, a...)}) }

// ---------------------------------------------------------------- classification

func isShutdownChan(s string) bool {
	return s == "closed" || strings.HasSuffix(s, ".closed") || strings.HasSuffix(s, ".Done()")
}

type ctx struct {
	fset     *token.FileSet
	src      []byte
	rel      string          // file path relative to the repo
	structs  map[string]bool // struct types of the package that have a field named `closed`
	loops    *[]loop
	funcName string
	count    int
	fnBody   *ast.BlockStmt // body of the enclosing top-level function (to find where a timer was made)
	loopBody *ast.BlockStmt // body of the service loop being translated
}

func (c *ctx) text(n ast.Node) string {
	a, b := c.fset.Position(n.Pos()).Offset, c.fset.Position(n.End()).Offset
	s := string(c.src[a:b])
	return strings.Join(strings.Fields(s), "")
}

func (c *ctx) line(n ast.Node) int { return c.fset.Position(n.Pos()).Line }

// labels of the statements around (and including) the service loop, and of the select itself
type scope struct {
	outer     map[string]bool // labels on the loop or on statements enclosing it
	loopLabel string
	selLabel  string
}

// blocks reports a channel operation inside a statement: in the shutdown case it could keep the
// goroutine from ever reaching the case's last statement
func blocks(n ast.Node) bool {
	found := false
	ast.Inspect(n, func(x ast.Node) bool {
		switch y := x.(type) {
		case *ast.SendStmt, *ast.SelectStmt:
			found = true
		case *ast.UnaryExpr:
			if y.Op == token.ARROW {
				found = true
			}
		case *ast.FuncLit:
			return false
		}
		return !found
	})
	return found
}

func hasBranch(n ast.Node) bool {
	found := false
	ast.Inspect(n, func(x ast.Node) bool {
		switch x.(type) {
		case *ast.BranchStmt, *ast.ReturnStmt, *ast.IfStmt, *ast.ForStmt, *ast.RangeStmt, *ast.SwitchStmt,
			*ast.TypeSwitchStmt, *ast.SelectStmt, *ast.LabeledStmt:
			found = true
		case *ast.FuncLit:
			return false
		}
		return !found
	})
	return found
}

// terminator of a statement list: how control leaves on its main (last-statement) path
func (c *ctx) terminator(body []ast.Stmt, sc scope, where string) string {
	if len(body) == 0 {
		return "Fall"
	}
	switch s := body[len(body)-1].(type) {
	case *ast.ReturnStmt:
		return "Return"
	case *ast.BlockStmt:
		return c.terminator(s.List, sc, where)
	case *ast.BranchStmt:
		lab := ""
		if s.Label != nil {
			lab = s.Label.Name
		}
		switch s.Tok {
		case token.BREAK:
			switch {
			case lab == "" || (lab == sc.selLabel && lab != ""):
				return "BreakSelect"
			case sc.outer[lab]:
				return "BreakLabel"
			}
			failf("%s: break to label %q that is neither the select, the loop nor a statement around it", where, lab)
		case token.CONTINUE:
			if lab == "" || lab == sc.loopLabel {
				return "Continue"
			}
			failf("%s: continue to an outer label %q", where, lab)
		default:
			failf("%s: %s statement ends a select case", where, s.Tok)
		}
	case *ast.ExprStmt:
		if call, ok := s.X.(*ast.CallExpr); ok {
			if id, ok := call.Fun.(*ast.Ident); ok && id.Name == "panic" {
				return "Return"
			}
		}
	}
	return "Fall"
}

// oneShot: the case receives from X.C where X was made by time.NewTimer in this function and is
// never re-armed (X.Reset) inside the loop: such a case can be taken once only, so a periodic
// service built on it runs a single period. (time.After(...) in the case itself makes a fresh
// timer every iteration; a time.NewTicker keeps ticking.)
func (c *ctx) oneShot(e ast.Expr, loopBody *ast.BlockStmt) bool {
	sel, ok := e.(*ast.SelectorExpr)
	if !ok || sel.Sel.Name != "C" {
		return false
	}
	id, ok := sel.X.(*ast.Ident)
	if !ok || c.fnBody == nil {
		return false
	}
	made := false
	ast.Inspect(c.fnBody, func(x ast.Node) bool {
		as, ok := x.(*ast.AssignStmt)
		if !ok || len(as.Lhs) != 1 || len(as.Rhs) != 1 {
			return true
		}
		l, ok := as.Lhs[0].(*ast.Ident)
		if !ok || l.Name != id.Name {
			return true
		}
		if call, ok := as.Rhs[0].(*ast.CallExpr); ok {
			if f, ok := call.Fun.(*ast.SelectorExpr); ok {
				if p, ok := f.X.(*ast.Ident); ok && p.Name == "time" && f.Sel.Name == "NewTimer" {
					made = true
				}
			}
		}
		return true
	})
	if !made {
		return false
	}
	rearmed := false
	ast.Inspect(loopBody, func(x ast.Node) bool {
		if call, ok := x.(*ast.CallExpr); ok {
			if f, ok := call.Fun.(*ast.SelectorExpr); ok && f.Sel.Name == "Reset" {
				if p, ok := f.X.(*ast.Ident); ok && p.Name == id.Name {
					rearmed = true
				}
			}
		}
		return !rearmed
	})
	return !rearmed
}

func (c *ctx) commChan(cc *ast.CommClause, where string) string {
	recv := func(e ast.Expr) string {
		for {
			p, ok := e.(*ast.ParenExpr)
			if !ok {
				break
			}
			e = p.X
		}
		u, ok := e.(*ast.UnaryExpr)
		if !ok || u.Op != token.ARROW {
			failf("%s: select case is not a channel receive", where)
		}
		if c.loopBody != nil && c.oneShot(u.X, c.loopBody) {
			return "oneshot:" + c.text(u.X)
		}
		return c.text(u.X)
	}
	switch s := cc.Comm.(type) {
	case *ast.ExprStmt:
		return recv(s.X)
	case *ast.AssignStmt:
		if len(s.Rhs) != 1 {
			failf("%s: select case with %d right-hand sides", where, len(s.Rhs))
		}
		return recv(s.Rhs[0])
	case *ast.SendStmt:
		return "send:" + c.text(s.Chan)
	}
	failf("%s: select case of unknown form", where)
	return ""
}

func unlabel(s ast.Stmt) (ast.Stmt, string) {
	if l, ok := s.(*ast.LabeledStmt); ok {
		return l.Stmt, l.Label.Name
	}
	return s, ""
}

func containsSelect(n ast.Node) bool {
	found := false
	ast.Inspect(n, func(x ast.Node) bool {
		switch x.(type) {
		case *ast.SelectStmt:
			found = true
		case *ast.FuncLit:
			return false
		}
		return !found
	})
	return found
}

// serviceLoop translates one `for { ... }` whose body holds a select at top level
func (c *ctx) serviceLoop(f *ast.ForStmt, labels map[string]bool, loopLabel string, seesClosed bool) {
	where := fmt.Sprintf("%s:%d", c.rel, c.line(f))
	var sel *ast.SelectStmt
	selLabel := ""
	for _, st := range f.Body.List {
		inner, lab := unlabel(st)
		if s, ok := inner.(*ast.SelectStmt); ok {
			if sel != nil {
				failf("%s: more than one select at the top level of a service loop", where)
			}
			sel, selLabel = s, lab
			continue
		}
		if containsSelect(st) {
			failf("%s: select nested inside another statement of a `for {}` loop", where)
		}
	}
	if sel == nil {
		return // a `for {}` without select (e.g. a read loop): not a select loop
	}
	outer := map[string]bool{}
	for k := range labels {
		outer[k] = true
	}
	if loopLabel != "" {
		outer[loopLabel] = true
	}
	sc := scope{outer: outer, loopLabel: loopLabel, selLabel: selLabel}
	c.count++
	c.loopBody = f.Body
	defer func() { c.loopBody = nil }()
	l := loop{Name: fmt.Sprintf("%s:%s:L%d", c.rel, c.funcName, c.line(f)), SeesClosed: seesClosed}
	for _, cl := range sel.Body.List {
		cc := cl.(*ast.CommClause)
		if cc.Comm == nil {
			l.HasDefault = true
			continue
		}
		cw := fmt.Sprintf("%s:%d", c.rel, c.line(cc))
		ch := c.commChan(cc, cw)
		if isShutdownChan(ch) {
			// the case the theorem is about must be straight-line code, so that its last
			// statement is the only way out of it
			for _, st := range cc.Body[:max(0, len(cc.Body)-1)] {
				if hasBranch(st) {
					failf("%s: control flow inside the shutdown case before its last statement", cw)
				}
			}
			for _, st := range cc.Body {
				if blocks(st) {
					failf("%s: channel operation inside the shutdown case (it may wait there instead of leaving)", cw)
				}
			}
			if n := len(cc.Body); n > 0 {
				switch last := cc.Body[n-1].(type) {
				case *ast.ReturnStmt, *ast.BranchStmt, *ast.ExprStmt, *ast.AssignStmt, *ast.IncDecStmt:
				case *ast.BlockStmt:
					for _, st := range last.List[:max(0, len(last.List)-1)] {
						if hasBranch(st) {
							failf("%s: control flow inside the shutdown case before its last statement", cw)
						}
					}
				default:
					failf("%s: shutdown case ends in a compound statement", cw)
				}
			}
		}
		l.Cases = append(l.Cases, scase{Chan: ch, Term: c.terminator(cc.Body, sc, cw)})
	}
	*c.loops = append(*c.loops, l)
}

// walk visits statements keeping the labels of the enclosing statements
func (c *ctx) walk(n ast.Node, labels map[string]bool, seesClosed bool) {
	if n == nil {
		return
	}
	switch s := n.(type) {
	case *ast.LabeledStmt:
		if f, ok := s.Stmt.(*ast.ForStmt); ok {
			c.forStmt(f, labels, s.Label.Name, seesClosed)
			return
		}
		nl := map[string]bool{s.Label.Name: true}
		for k := range labels {
			nl[k] = true
		}
		c.walk(s.Stmt, nl, seesClosed)
		return
	case *ast.ForStmt:
		c.forStmt(s, labels, "", seesClosed)
		return
	case *ast.FuncLit:
		// a new function: labels do not cross, `closed` may be a parameter here too
		sc := seesClosed || paramsHaveClosed(s.Type)
		c.walkChildren(s.Body, map[string]bool{}, sc)
		return
	}
	c.walkChildren(n, labels, seesClosed)
}

func (c *ctx) walkChildren(n ast.Node, labels map[string]bool, seesClosed bool) {
	first := true
	ast.Inspect(n, func(x ast.Node) bool {
		if first {
			first = false
			return true
		}
		if x == nil {
			return false
		}
		switch x.(type) {
		case *ast.LabeledStmt, *ast.ForStmt, *ast.FuncLit:
			c.walk(x, labels, seesClosed)
			return false
		}
		return true
	})
}

func (c *ctx) forStmt(f *ast.ForStmt, labels map[string]bool, label string, seesClosed bool) {
	where := fmt.Sprintf("%s:%d", c.rel, c.line(f))
	if f.Cond == nil && f.Init == nil && f.Post == nil {
		c.serviceLoop(f, labels, label, seesClosed)
	} else {
		for _, st := range f.Body.List {
			inner, _ := unlabel(st)
			if _, ok := inner.(*ast.SelectStmt); ok {
				failf("%s: select at the top level of a conditional for loop (unknown service-loop shape)", where)
			}
		}
	}
	nl := map[string]bool{}
	for k := range labels {
		nl[k] = true
	}
	if label != "" {
		nl[label] = true
	}
	c.walkChildren(f.Body, nl, seesClosed)
}

func paramsHaveClosed(ft *ast.FuncType) bool {
	if ft == nil || ft.Params == nil {
		return false
	}
	for _, fld := range ft.Params.List {
		for _, nm := range fld.Names {
			if nm.Name == "closed" {
				return true
			}
		}
	}
	return false
}

func recvTypeName(fd *ast.FuncDecl) string {
	if fd.Recv == nil || len(fd.Recv.List) == 0 {
		return ""
	}
	t := fd.Recv.List[0].Type
	if st, ok := t.(*ast.StarExpr); ok {
		t = st.X
	}
	if id, ok := t.(*ast.Ident); ok {
		return id.Name
	}
	return ""
}

// translateFiles handles the files of one package: name -> source
func translateFiles(files map[string][]byte) []loop {
	fset := token.NewFileSet()
	names := make([]string, 0, len(files))
	for n := range files {
		names = append(names, n)
	}
	sort.Strings(names)
	parsed := map[string]*ast.File{}
	structs := map[string]bool{}
	for _, n := range names {
		f, err := parser.ParseFile(fset, n, files[n], parser.SkipObjectResolution)
		if err != nil {
			failf("%s: %v", n, err)
		}
		parsed[n] = f
		for _, d := range f.Decls {
			gd, ok := d.(*ast.GenDecl)
			if !ok {
				continue
			}
			for _, sp := range gd.Specs {
				ts, ok := sp.(*ast.TypeSpec)
				if !ok {
					continue
				}
				st, ok := ts.Type.(*ast.StructType)
				if !ok {
					continue
				}
				for _, fld := range st.Fields.List {
					for _, nm := range fld.Names {
						if nm.Name == "closed" {
							structs[ts.Name.Name] = true
						}
					}
				}
			}
		}
	}
	var out []loop
	for _, n := range names {
		for _, d := range parsed[n].Decls {
			fd, ok := d.(*ast.FuncDecl)
			if !ok || fd.Body == nil {
				continue
			}
			c := &ctx{fset: fset, src: files[n], rel: n, structs: structs, loops: &out, funcName: fd.Name.Name, fnBody: fd.Body}
			sees := paramsHaveClosed(fd.Type) || structs[recvTypeName(fd)]
			c.walkChildren(fd.Body, map[string]bool{}, sees)
		}
	}
	return out
}

// ---------------------------------------------------------------- Coq output

func coqString(s string) string {
	for i := 0; i < len(s); i++ {
		if s[i] < 32 || s[i] > 126 {
			failf("channel expression %q contains a byte outside printable ASCII", s)
		}
	}
	return "\"" + strings.ReplaceAll(s, "\"", "\"\"") + "\""
}

func coqBool(b bool) string {
	if b {
		return "true"
	}
	return "false"
}

func (l loop) coq() string {
	cs := make([]string, len(l.Cases))
	for i, c := range l.Cases {
		cs[i] = fmt.Sprintf("mkcase %s %s", coqString(c.Chan), c.Term)
	}
	return fmt.Sprintf("mkloop %s %s %s\n     [%s]", coqString(l.Name), coqBool(l.SeesClosed), coqBool(l.HasDefault), strings.Join(cs, "; "))
}

// mirror of LoopIR.loop_ok, used only to state the expected verdicts of the self-test corpus
func loopOK(l loop) bool {
	listens := false
	for _, c := range l.Cases {
		if strings.HasPrefix(c.Chan, "oneshot:") {
			return false
		}
		if isShutdownChan(c.Chan) {
			listens = true
			if c.Term != "Return" && c.Term != "BreakLabel" {
				return false
			}
		}
	}
	return !l.HasDefault && (!l.SeesClosed || listens)
}

func render(repo string, loops []loop, self []selfResult) string {
	var sb strings.Builder
	sb.WriteString("(* GENERATED on every run by translator/loops from the Go source of " + repo + " - do not edit.\n")
	sb.WriteString("   Shapes of the for/select service loops; the obligation is closed by computation. *)\n")
	sb.WriteString("From Relay Require Import Base.Prelude Model.LoopIR Proofs.LoopIR_proofs.\nOpen Scope string_scope.\n\n")
	sb.WriteString("Definition loops : list loop := [\n")
	for i, l := range loops {
		sb.WriteString("  " + l.coq())
		if i+1 < len(loops) {
			sb.WriteString(";")
		}
		sb.WriteString("\n")
	}
	sb.WriteString("].\n\n")
	sb.WriteString("(* the translator's self-test corpus: shapes with known verdicts, checked by the same checker *)\n")
	for _, r := range self {
		for i, l := range r.loops {
			sb.WriteString(fmt.Sprintf("Example selftest_%s_%d : loop_ok (%s) = %s.\nProof. vm_compute. reflexivity. Qed.\n", r.name, i, l.coq(), coqBool(r.want[i])))
		}
	}
	sb.WriteString("\nDefinition DEAF := Eval vm_compute in (deaf loops).\nPrint DEAF.\n")
	sb.WriteString("Definition OFFENDERS := Eval vm_compute in (offenders loops).\nPrint OFFENDERS.\n\n")
	// loops that have no shutdown case and no case that leaves them: by the generic lemma they never
	// exit, so "the relay's services stop" is refuted for the current source (finding F21)
	var parked []int
	for i, l := range loops {
		listens, leaves := false, false
		for _, c := range l.Cases {
			if isShutdownChan(c.Chan) {
				listens = true
			}
			if c.Term == "Return" || c.Term == "BreakLabel" {
				leaves = true
			}
		}
		if !listens && !leaves {
			parked = append(parked, i)
		}
	}
	if len(parked) > 0 {
		sb.WriteString("(* FULL CLAUSE 'on shutdown request the relay's services stop' = every service loop exits after close(closed).\n")
		sb.WriteString("   Refuted for the current source: these loops have no shutdown case and no case that leaves them. *)\n")
		for _, i := range parked {
			sb.WriteString(fmt.Sprintf("Example never_stops_%d : forall sched, run (nth %d loops (mkloop \"\" false false [])) sched = Running.\nProof. apply never_exits. vm_compute. reflexivity. Qed.\n", i, i))
		}
		sb.WriteString(fmt.Sprintf("Example services_stop_refuted : exists l, In l loops /\\ listens l = false /\\ forall sched, run l sched = Running.\nProof. exists (nth %d loops (mkloop \"\" false false [])). split; [vm_compute; tauto|]. split; [vm_compute; reflexivity|exact never_stops_%d]. Qed.\n\n", parked[0], parked[0]))
	}
	sb.WriteString("Example loops_ok : stops_on_close loops = true.\nProof. vm_compute. reflexivity. Qed.\n\n")
	sb.WriteString("(* hence, by the generic theorem, for the loops of the current source: *)\n")
	sb.WriteString("Lemma current_loops_stop :\n  forall l, In l loops -> forall i c, nth_error (cases l) i = Some c -> is_shutdown c = true ->\n  forall sched, In i sched -> run l sched = Exited.\nProof. exact (loops_stop loops loops_ok). Qed.\n")
	return sb.String()
}

func translateRepo(repo string) []loop {
	var all []loop
	for _, d := range dirs {
		byDir := map[string]map[string][]byte{}
		root := filepath.Join(repo, d)
		err := filepath.Walk(root, func(p string, info os.FileInfo, err error) error {
			if err != nil {
				return err
			}
			if info.IsDir() || !strings.HasSuffix(p, ".go") || strings.HasSuffix(p, "_test.go") {
				return nil
			}
			b, err := os.ReadFile(p)
			if err != nil {
				return err
			}
			rel, _ := filepath.Rel(repo, p)
			dir := filepath.Dir(rel)
			if byDir[dir] == nil {
				byDir[dir] = map[string][]byte{}
			}
			byDir[dir][rel] = b
			return nil
		})
		if err != nil {
			failf("reading %s: %v", root, err)
		}
		var ds []string
		for k := range byDir {
			ds = append(ds, k)
		}
		sort.Strings(ds)
		for _, k := range ds {
			all = append(all, translateFiles(byDir[k])...)
		}
	}
	return all
}

func main() {
	repo := flag.String("repo", "/repo", "repository root")
	out := flag.String("out", "", "directory for LoopGen.v (coq/Gen)")
	self := flag.Bool("selftest", false, "run the built-in corpus only")
	flag.Parse()
	code := 0
	func() {
		defer func() {
			if r := recover(); r != nil {
				if f, ok := r.(failure); ok {
					fmt.Println("loops: FAIL-CLOSED:", f.msg)
					code = 3
					return
				}
				panic(r)
			}
		}()
		results, ok := selftest()
		if !ok {
			fmt.Println("loops: self-test FAILED")
			code = 4
			return
		}
		fmt.Printf("loops: self-test ok (%d corpus files)\n", len(results))
		if *self {
			return
		}
		ls := translateRepo(*repo)
		if len(ls) == 0 {
			failf("no service loop found under %s (moved or renamed packages?)", *repo)
		}
		if *out == "" {
			failf("-out is required")
		}
		if err := os.MkdirAll(*out, 0o755); err != nil {
			failf("%v", err)
		}
		if err := os.WriteFile(filepath.Join(*out, "LoopGen.v"), []byte(render(*repo, ls, results)), 0o644); err != nil {
			failf("%v", err)
		}
		bad := 0
		for _, l := range ls {
			v := "ok"
			if !loopOK(l) {
				v = "DOES-NOT-STOP"
				bad++
			}
			fmt.Printf("loops: %-60s sees_closed=%-5v cases=%d %s\n", l.Name, l.SeesClosed, len(l.Cases), v)
			for _, c := range l.Cases {
				fmt.Printf("loops:     case <-%s : %s\n", c.Chan, c.Term)
			}
		}
		fmt.Printf("loops: %d service loops, %d not stopping on close (the verdict that counts is Coq's)\n", len(ls), bad)
	}()
	os.Exit(code)
}
