module verif/translator/loops

go 1.21
