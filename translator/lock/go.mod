module verif/translator/lock

go 1.21
