package main

import (
	"fmt"
	"go/token"
	"sort"
	"strings"
)

// The lock IR (mirrors coq/Model/LockIR.v). A lock or field is (prefix, label): the prefix is the
// receiver / path expression that reaches the struct holding the mutex, the label names the mutex
// or the field in the guard table.

type Kind int

const (
	KSkip Kind = iota
	KSeq
	KChoice
	KLoop
	KAcq
	KRel
	KRd
	KWr
	KBlock
	KReturn
	KMark      // translator-internal, no semantics: a select arm (Sel, Arm) or a channel send (Label); removed before output
	KCallParam // translator-internal: invocation of a func-typed parameter, resolved when the function is inlined
)

// Ref is a syntactic path: a root variable (or a rendered root string) followed by field names.
type Ref struct {
	Root interface{} // types.Object of the root identifier (nil only in hand-built IR)
	Name string      // rendered root (set by renderNames / selftest)
	Path []string    // selectors after the root, up to the struct that holds mutex + fields
}

func (r Ref) Text() string {
	if len(r.Path) == 0 {
		return r.Name
	}
	return r.Name + "." + strings.Join(r.Path, ".")
}

type Stmt struct {
	K        Kind
	A, B     *Stmt       // Seq, Choice; Loop uses A
	Ref      Ref         // Acq, Rel, Rd, Wr
	Label    string      // mutex label (Acq/Rel), field label (Rd/Wr), channel text (Block)
	Ex       bool        // Acq: exclusive
	Param    interface{} // KCallParam: the parameter (types.Object)
	Sel, Arm int         // KMark of a select arm
	Pos      token.Position
}

func skip() *Stmt { return &Stmt{K: KSkip} }

func seq(xs ...*Stmt) *Stmt {
	var out *Stmt
	for _, x := range xs {
		if x == nil || x.K == KSkip {
			continue
		}
		if out == nil {
			out = x
		} else {
			out = &Stmt{K: KSeq, A: out, B: x}
		}
	}
	if out == nil {
		return skip()
	}
	return out
}

// choice of the arms that exist (nil = no such path)
func choice(xs ...*Stmt) *Stmt {
	var out *Stmt
	for _, x := range xs {
		if x == nil {
			continue
		}
		if out == nil {
			out = x
		} else if out.K == KSkip && x.K == KSkip {
			continue
		} else {
			out = &Stmt{K: KChoice, A: out, B: x}
		}
	}
	return out
}

func loop(b *Stmt) *Stmt {
	if b == nil || b.K == KSkip {
		return skip()
	}
	return &Stmt{K: KLoop, A: b}
}

func (s *Stmt) trivial() bool {
	switch s.K {
	case KSkip, KReturn, KMark:
		return true
	case KSeq, KChoice:
		return s.A.trivial() && s.B.trivial()
	case KLoop:
		return s.A.trivial()
	}
	return false
}

// onlyPseudo: apart from control, the statement consists of pseudo-field writes emitted by the translator's own
// rules (publication, buffers, connection writers), which say nothing about call order
func (s *Stmt) onlyPseudo() bool {
	ok := true
	s.walk(func(x *Stmt) {
		switch x.K {
		case KAcq, KRel, KRd, KBlock, KCallParam:
			ok = false
		case KWr:
			if x.Ref.Root != nil {
				ok = false
			}
		}
	})
	return ok
}

func (s *Stmt) hasLockOp() bool {
	switch s.K {
	case KAcq, KRel:
		return true
	case KSeq, KChoice:
		return s.A.hasLockOp() || s.B.hasLockOp()
	case KLoop:
		return s.A.hasLockOp()
	}
	return false
}

func (s *Stmt) hasReturn() bool {
	switch s.K {
	case KReturn:
		return true
	case KSeq, KChoice:
		return s.A.hasReturn() || s.B.hasReturn()
	case KLoop:
		return s.A.hasReturn()
	}
	return false
}

func (s *Stmt) walk(f func(*Stmt)) {
	f(s)
	switch s.K {
	case KSeq, KChoice:
		s.A.walk(f)
		s.B.walk(f)
	case KLoop:
		s.A.walk(f)
	}
}

// clone with a substitution of references
func (s *Stmt) subst(f func(Ref) Ref, g func(*Stmt) *Stmt) *Stmt {
	c := *s
	switch s.K {
	case KSeq:
		a, b := s.A.subst(f, g), s.B.subst(f, g)
		if a.K == KSkip || b.K == KSkip {
			return seq(a, b)
		}
		c.A, c.B = a, b
	case KChoice:
		c.A, c.B = s.A.subst(f, g), s.B.subst(f, g)
	case KLoop:
		c.A = s.A.subst(f, g)
	case KAcq, KRel, KRd, KWr:
		c.Ref = f(s.Ref)
	case KCallParam:
		if g != nil {
			return g(s)
		}
	}
	return &c
}

// stripMarks removes the translator-internal markers
func (s *Stmt) stripMarks() *Stmt {
	switch s.K {
	case KMark:
		return skip()
	case KSeq:
		return seq(s.A.stripMarks(), s.B.stripMarks())
	case KChoice:
		c := *s
		c.A, c.B = s.A.stripMarks(), s.B.stripMarks()
		if c.A.K == KSkip && c.B.K == KSkip {
			return skip()
		}
		return &c
	case KLoop:
		return loop(s.A.stripMarks())
	}
	return s
}

func (s *Stmt) hasCallParam() bool {
	found := false
	s.walk(func(x *Stmt) {
		if x.K == KCallParam {
			found = true
		}
	})
	return found
}

func coqString(s string) string { return `"` + strings.ReplaceAll(s, `"`, `""`) + `"` }

// Coq term of a statement
func (s *Stmt) Coq(ind string) string {
	switch s.K {
	case KSkip, KMark:
		return "Skip"
	case KReturn:
		return "Return"
	case KSeq:
		// flatten right-nested for readability
		return "(Seq " + s.A.Coq(ind) + "\n" + ind + " " + s.B.Coq(ind) + ")"
	case KChoice:
		return "(Choice " + s.A.Coq(ind+"  ") + "\n" + ind + "   " + s.B.Coq(ind+"  ") + ")"
	case KLoop:
		return "(Loop " + s.A.Coq(ind+"  ") + ")"
	case KAcq:
		m := "Sh"
		if s.Ex {
			m = "Ex"
		}
		return fmt.Sprintf("(Acq (%s, %s) %s)", coqString(s.Ref.Text()), coqString(s.Label), m)
	case KRel:
		return fmt.Sprintf("(Rel (%s, %s))", coqString(s.Ref.Text()), coqString(s.Label))
	case KRd:
		return fmt.Sprintf("(Rd (%s, %s))", coqString(s.Ref.Text()), coqString(s.Label))
	case KWr:
		return fmt.Sprintf("(Wr (%s, %s))", coqString(s.Ref.Text()), coqString(s.Label))
	case KBlock:
		return fmt.Sprintf("(Block %s)", coqString(s.Label))
	}
	panic("bad stmt")
}

// one-line rendering for reports and samples
func (s *Stmt) Short() string {
	switch s.K {
	case KSkip, KMark:
		return "Skip"
	case KReturn:
		return "Return"
	case KSeq:
		return s.A.Short() + "; " + s.B.Short()
	case KChoice:
		return "Choice{" + s.A.Short() + " | " + s.B.Short() + "}"
	case KLoop:
		return "Loop{" + s.A.Short() + "}"
	case KAcq:
		if s.Ex {
			return "Lock " + s.Ref.Text() + ":" + s.Label
		}
		return "RLock " + s.Ref.Text() + ":" + s.Label
	case KRel:
		return "Unlock " + s.Ref.Text() + ":" + s.Label
	case KRd:
		return "Rd " + s.Ref.Text() + ":" + s.Label
	case KWr:
		return "Wr " + s.Ref.Text() + ":" + s.Label
	case KBlock:
		return "Block " + s.Label
	case KCallParam:
		return "CallParam " + s.Label
	}
	return "?"
}

// ---------------------------------------------------------------------------------------------
// Diagnostic checker: the same dataflow as Coq's [check], but it keeps going after a failure and
// says where and why. It decides nothing (Coq's vm_compute does); it produces the messages and
// directs the violation search.

type Diag struct {
	Func  string `json:"func"`
	Kind  string `json:"kind"`
	Field string `json:"field,omitempty"`
	Lock  string `json:"lock,omitempty"`
	Pos   string `json:"pos"`
	Check string `json:"check"` // which obligation it breaks: well_locked | no_block | lock_order
}

type held struct {
	key string // prefix + "|" + label
	ex  bool
	rk  int
}

type lockset []held

func (l lockset) find(k string) int {
	for i, h := range l {
		if h.key == k {
			return i
		}
	}
	return -1
}
func (l lockset) eq(o lockset) bool {
	if len(l) != len(o) {
		return false
	}
	for i := range l {
		if l[i].key != o[i].key || l[i].ex != o[i].ex {
			return false
		}
	}
	return true
}
func (l lockset) String() string {
	var xs []string
	for _, h := range l {
		xs = append(xs, h.key)
	}
	return "{" + strings.Join(xs, ", ") + "}"
}

type checker struct {
	fn    string
	guard map[string]string // field label -> mutex label
	rank  map[string]int
	diags []Diag
}

func (c *checker) add(kind, check, field, lock string, pos token.Position) {
	p := ""
	if pos.IsValid() {
		p = fmt.Sprintf("%s:%d", pos.Filename, pos.Line)
	}
	c.diags = append(c.diags, Diag{Func: c.fn, Kind: kind, Field: field, Lock: lock, Pos: p, Check: check})
}

// returns (falls-through?, lockset)
func (c *checker) run(ls lockset, s *Stmt) (bool, lockset) {
	switch s.K {
	case KSkip, KMark:
		return true, ls
	case KSeq:
		ok, l1 := c.run(ls, s.A)
		if !ok {
			return false, nil
		}
		return c.run(l1, s.B)
	case KChoice:
		oa, la := c.run(ls, s.A)
		ob, lb := c.run(ls, s.B)
		switch {
		case !oa:
			return ob, lb
		case !ob:
			return oa, la
		}
		if !la.eq(lb) {
			c.add("branches-end-with-different-locks", "well_locked", "", la.String()+" vs "+lb.String(), firstPos(s))
		}
		return true, la
	case KLoop:
		ok, l1 := c.run(ls, s.A)
		if ok && !l1.eq(ls) {
			c.add("loop-body-changes-lockset", "well_locked", "", ls.String()+" -> "+l1.String(), firstPos(s))
		}
		return true, ls
	case KAcq:
		k := s.Ref.Text() + "|" + s.Label
		if ls.find(k) >= 0 {
			c.add("double-acquire", "well_locked", "", s.Ref.Text()+":"+s.Label, s.Pos)
			return true, ls
		}
		rk := c.rank[s.Label]
		for _, h := range ls {
			if h.rk >= rk {
				c.add("lock-order", "lock_order", "", h.key+" held while acquiring "+s.Ref.Text()+":"+s.Label, s.Pos)
			}
		}
		n := append(lockset{{k, s.Ex, rk}}, ls...)
		return true, n
	case KRel:
		k := s.Ref.Text() + "|" + s.Label
		i := ls.find(k)
		if i < 0 {
			c.add("release-of-lock-not-held", "well_locked", "", s.Ref.Text()+":"+s.Label, s.Pos)
			return true, ls
		}
		n := append(lockset{}, ls[:i]...)
		n = append(n, ls[i+1:]...)
		return true, n
	case KRd, KWr:
		g, ok := c.guard[s.Label]
		if !ok {
			kind := "field-not-in-guard-table"
			if strings.Contains(s.Label, "after publication") {
				kind = "write-after-publication"
			}
			if strings.HasPrefix(s.Label, "websocket connection (second writer): ") {
				c.add("second-writer-on-connection", "well_locked", s.Ref.Text()+":connection", strings.TrimPrefix(s.Label, "websocket connection (second writer): "), s.Pos)
				return true, ls
			}
			if strings.HasPrefix(s.Label, "handler effects (not all-or-nothing): ") {
				c.add("handler-not-all-or-nothing", "well_locked", s.Ref.Text()+":effects", strings.TrimPrefix(s.Label, "handler effects (not all-or-nothing): "), s.Pos)
				return true, ls
			}
			if strings.HasPrefix(s.Label, "buffer (shared across goroutines)") {
				c.add("buffer-shared-across-goroutines", "well_locked", s.Ref.Text()+":buffer", strings.TrimPrefix(s.Label, "buffer (shared across goroutines): "), s.Pos)
				return true, ls
			}
			c.add(kind, "well_locked", s.Ref.Text()+":"+s.Label, "", s.Pos)
			return true, ls
		}
		i := ls.find(s.Ref.Text() + "|" + g)
		if i < 0 {
			kind := "unlocked-read"
			if s.K == KWr {
				kind = "unlocked-write"
			}
			c.add(kind, "well_locked", s.Ref.Text()+":"+s.Label, s.Ref.Text()+":"+g, s.Pos)
		} else if s.K == KWr && !ls[i].ex {
			c.add("write-under-read-lock", "well_locked", s.Ref.Text()+":"+s.Label, s.Ref.Text()+":"+g, s.Pos)
		}
		return true, ls
	case KBlock:
		if len(ls) > 0 {
			c.add("blocking-channel-operation-while-locked", "no_block", "", ls.String()+" at "+s.Label, s.Pos)
		}
		return true, ls
	case KReturn:
		if len(ls) > 0 {
			c.add("return-while-holding", "well_locked", "", ls.String(), s.Pos)
		}
		return false, nil
	}
	panic("bad stmt")
}

func firstPos(s *Stmt) token.Position {
	var p token.Position
	s.walk(func(x *Stmt) {
		if !p.IsValid() && x.Pos.IsValid() {
			p = x.Pos
		}
	})
	return p
}

func diagnose(fn string, body *Stmt, guard map[string]string, rank map[string]int) []Diag {
	c := &checker{fn: fn, guard: guard, rank: rank}
	ok, ls := c.run(nil, body)
	if ok && len(ls) > 0 {
		c.add("end-of-function-while-holding", "well_locked", "", ls.String(), token.Position{})
	}
	// stable, de-duplicated
	seen := map[string]bool{}
	var out []Diag
	for _, d := range c.diags {
		k := d.Kind + d.Field + d.Lock + d.Pos
		if !seen[k] {
			seen[k] = true
			out = append(out, d)
		}
	}
	sort.SliceStable(out, func(i, j int) bool { return out[i].Pos < out[j].Pos })
	return out
}

// single critical section (mirrors Coq's [sec]); returns a reason or ""
func singleSection(body *Stmt, guard map[string]string) string {
	type ph struct {
		k   int // 0 before, 1 inside, 2 after
		key string
	}
	var why string
	var run func(p ph, s *Stmt) (bool, ph)
	fail := func(m string) {
		if why == "" {
			why = m
		}
	}
	run = func(p ph, s *Stmt) (bool, ph) {
		switch s.K {
		case KSkip, KBlock:
			return true, p
		case KSeq:
			ok, p1 := run(p, s.A)
			if !ok {
				return false, p
			}
			return run(p1, s.B)
		case KChoice:
			oa, pa := run(p, s.A)
			ob, pb := run(p, s.B)
			if !oa {
				return ob, pb
			}
			if !ob {
				return oa, pa
			}
			if pa != pb {
				fail("branches end in different phases")
			}
			return true, pa
		case KLoop:
			ok, p1 := run(p, s.A)
			if ok && p1 != p {
				fail("loop body changes phase")
			}
			return true, p
		case KAcq:
			if p.k != 0 {
				fail("second acquisition")
			}
			return true, ph{1, s.Ref.Text() + "|" + s.Label}
		case KRel:
			if p.k != 1 || p.key != s.Ref.Text()+"|"+s.Label {
				fail("release outside the section")
			}
			return true, ph{2, ""}
		case KRd, KWr:
			if p.k != 1 || p.key != s.Ref.Text()+"|"+guard[s.Label] {
				fail("access outside the section: " + s.Ref.Text() + ":" + s.Label)
			}
			return true, p
		case KReturn:
			if p.k == 1 {
				fail("return inside the section")
			}
			return false, p
		}
		return true, p
	}
	ok, p := run(ph{}, body)
	if ok && p.k == 1 {
		fail("ends inside the section")
	}
	return why
}
