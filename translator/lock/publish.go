package main

import (
	"go/ast"
	"go/token"
	"go/types"
)

// pubInfo: for one declared function (its nested literals included), which local variables hold a freshly built
// publish-once object, and from which source position on each must be considered published.
type pubInfo struct {
	fresh  map[types.Object]token.Pos // declaration position of a fresh local
	pubPos map[types.Object]token.Pos // earliest position at which it may have become visible to others
}

func (t *Trans) isPubType(tp types.Type) bool {
	if p, ok := tp.(*types.Pointer); ok {
		tp = p.Elem()
	}
	if n, ok := tp.(*types.Named); ok {
		return t.pubTypes[n.Obj()]
	}
	return false
}

func (t *Trans) pubInfo(fi *FuncInfo) *pubInfo {
	if pi, ok := t.pubInfos[fi]; ok {
		return pi
	}
	pi := &pubInfo{fresh: map[types.Object]token.Pos{}, pubPos: map[types.Object]token.Pos{}}
	t.pubInfos[fi] = pi
	info := fi.Pkg.Info
	obj := func(id *ast.Ident) types.Object {
		if o := info.Defs[id]; o != nil {
			return o
		}
		return info.Uses[id]
	}
	// 1. fresh locals: x := &T{...} | T{...} | new(T) | f(...) where f returns a fresh unpublished object
	freshValue := func(e ast.Expr) bool {
		if isFreshValue(e) {
			return true
		}
		if call, ok := stripParens(e).(*ast.CallExpr); ok {
			if id := funIdent(call.Fun); id != nil {
				if fn, ok := info.Uses[id].(*types.Func); ok {
					return t.returnsFresh(fn)
				}
			}
		}
		return false
	}
	ast.Inspect(fi.Decl.Body, func(n ast.Node) bool {
		switch x := n.(type) {
		case *ast.AssignStmt:
			if x.Tok == token.DEFINE && len(x.Lhs) == len(x.Rhs) {
				for i, l := range x.Lhs {
					if id, ok := l.(*ast.Ident); ok && id.Name != "_" {
						if o := info.Defs[id]; o != nil && t.isPubType(o.Type()) && freshValue(x.Rhs[i]) {
							pi.fresh[o] = id.Pos()
						}
					}
				}
			}
		case *ast.ValueSpec:
			if len(x.Names) == len(x.Values) {
				for i, id := range x.Names {
					if o := info.Defs[id]; o != nil && t.isPubType(o.Type()) && freshValue(x.Values[i]) {
						pi.fresh[o] = id.Pos()
					}
				}
			}
		}
		return true
	})
	if len(pi.fresh) == 0 {
		return pi
	}
	// 2. publication events, with the loops enclosing them
	var loops []ast.Node
	publish := func(o types.Object, at token.Pos) {
		decl, isFresh := pi.fresh[o]
		if !isFresh {
			return
		}
		// an event inside a loop that started after the declaration repeats: the object is published from the
		// start of that loop on
		for _, l := range loops {
			if l.Pos() > decl {
				at = l.Pos()
				break
			}
		}
		if old, ok := pi.pubPos[o]; !ok || at < old {
			pi.pubPos[o] = at
		}
	}
	whole := func(e ast.Expr, at token.Pos) { // e is the variable itself (possibly &x, *x, (x))
		e = stripParensStars(e)
		if u, ok := e.(*ast.UnaryExpr); ok && u.Op == token.AND {
			e = stripParensStars(u.X)
		}
		if id, ok := e.(*ast.Ident); ok {
			if o := obj(id); o != nil {
				publish(o, at)
			}
		}
	}
	var walk func(n ast.Node)
	walk = func(n ast.Node) {
		ast.Inspect(n, func(m ast.Node) bool {
			switch x := m.(type) {
			case *ast.ForStmt, *ast.RangeStmt:
				if m != n {
					loops = append(loops, m)
					walk2 := m
					switch y := walk2.(type) {
					case *ast.ForStmt:
						if y.Init != nil {
							walk(y.Init)
						}
						if y.Cond != nil {
							walk(y.Cond)
						}
						if y.Post != nil {
							walk(y.Post)
						}
						walk(y.Body)
					case *ast.RangeStmt:
						walk(y.X)
						walk(y.Body)
					}
					loops = loops[:len(loops)-1]
					return false
				}
			case *ast.FuncLit:
				// captured: everything the literal mentions is visible to whoever runs it
				ast.Inspect(x.Body, func(k ast.Node) bool {
					if id, ok := k.(*ast.Ident); ok {
						if o := info.Uses[id]; o != nil {
							publish(o, x.Pos())
						}
					}
					return true
				})
				return false
			case *ast.SendStmt:
				whole(x.Value, x.Pos())
			case *ast.CallExpr:
				for _, a := range x.Args {
					whole(a, x.Pos())
				}
				if se, ok := stripParens(x.Fun).(*ast.SelectorExpr); ok {
					whole(se.X, x.Pos()) // method call on the object: the method may hand it on
				}
			case *ast.CompositeLit:
				for _, el := range x.Elts {
					if kv, ok := el.(*ast.KeyValueExpr); ok {
						whole(kv.Value, x.Pos())
					} else {
						whole(el, x.Pos())
					}
				}
			case *ast.AssignStmt:
				for _, r := range x.Rhs {
					whole(r, x.Pos()) // y = x : a second name for the object
				}
			case *ast.ValueSpec:
				for _, r := range x.Values {
					whole(r, x.Pos())
				}
			case *ast.UnaryExpr:
				if x.Op == token.AND {
					if id, ok := stripParens(x.X).(*ast.Ident); ok {
						if o := obj(id); o != nil {
							if _, isPtr := o.Type().(*types.Pointer); !isPtr {
								publish(o, x.Pos())
							}
						}
					}
				}
			}
			return true
		})
	}
	walk(fi.Decl.Body)
	return pi
}

// writable: may the function assign a field of the publish-once object that `root` denotes at position `at`?
func (t *Trans) stillPrivate(fi *FuncInfo, root types.Object, at token.Pos) bool {
	pi := t.pubInfo(fi)
	decl, ok := pi.fresh[root]
	if !ok || at < decl {
		return false
	}
	if p, pub := pi.pubPos[root]; pub && at > p {
		return false
	}
	return true
}

// returnsFresh: every return of fn hands back an object it built itself and has not published
func (t *Trans) returnsFresh(fn *types.Func) bool {
	switch t.freshMemo[fn] {
	case 1, 3:
		return false
	case 2:
		return true
	}
	fi := t.funcs[fn]
	if fi == nil {
		return false
	}
	t.freshMemo[fn] = 1
	pi := t.pubInfo(fi)
	ok, any := true, false
	ast.Inspect(fi.Decl.Body, func(n ast.Node) bool {
		if _, isLit := n.(*ast.FuncLit); isLit {
			return false
		}
		r, isRet := n.(*ast.ReturnStmt)
		if !isRet || len(r.Results) == 0 {
			return true
		}
		any = true
		e := stripParens(r.Results[0])
		if isFreshValue(e) {
			return true
		}
		if id, isId := e.(*ast.Ident); isId {
			o := fi.Pkg.Info.Uses[id]
			if o != nil {
				if _, fresh := pi.fresh[o]; fresh {
					if p, pub := pi.pubPos[o]; !pub || p > r.Pos() {
						return true
					}
				}
			}
		}
		ok = false
		return true
	})
	if ok && any {
		t.freshMemo[fn] = 2
		return true
	}
	t.freshMemo[fn] = 3
	return false
}
