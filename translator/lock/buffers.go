package main

import (
	"fmt"
	"go/ast"
	"go/token"
	"go/types"
	"strings"
)

// Ownership of byte buffers that cross goroutines through channels.
//
// The lock IR tracks guarded FIELDS; it knows nothing of the backing array of a []byte that one goroutine hands to
// others (readPump -> hub -> every receiver's writePump). The discipline that makes that hand-over safe without
// any lock: a []byte (or a struct carrying one) that is SENT on a channel must be
//   * a fresh allocation made in the same function activation (make, a literal, a conversion from string,
//     append to such a fresh value, the result of a library call known to allocate - ReadMessage, json.Marshal,
//     io.ReadAll ..., or the result of a function of the translated packages all of whose returns are fresh), or
//   * something this goroutine itself received from a channel (ownership was handed to it; forwarding it to
//     several readers is sharing for reading only),
// and the sender must neither keep it (store it in a field, through a pointer, in a global, in a container) nor
// write into it (index assignment, copy/append onto it, Read into it). Anything else - including anything this
// analysis cannot classify - is emitted as a write to a field that no mutex guards ("buffer ... (shared across
// goroutines)"), which the well_locked obligation rejects: the check fails closed, naming file:line.

type bufDef struct {
	rhs  ast.Expr
	idx  int  // which result of a multi-valued rhs
	recv bool // defined by a channel receive in a select case / range over channel
}

type bufInfo struct {
	defs     map[types.Object][]bufDef
	retained map[types.Object]token.Pos // stored somewhere that outlives the activation
	written  map[types.Object]token.Pos // written into / reused as a destination
	params   map[types.Object]bool
}

func (t *Trans) bufInfoOf(fi *FuncInfo) *bufInfo {
	if t.bufInfos == nil {
		t.bufInfos = map[*FuncInfo]*bufInfo{}
	}
	if bi, ok := t.bufInfos[fi]; ok {
		return bi
	}
	bi := &bufInfo{defs: map[types.Object][]bufDef{}, retained: map[types.Object]token.Pos{}, written: map[types.Object]token.Pos{}, params: map[types.Object]bool{}}
	t.bufInfos[fi] = bi
	info := fi.Pkg.Info
	obj := func(e ast.Expr) types.Object {
		if id, ok := stripParens(e).(*ast.Ident); ok {
			if o := info.Defs[id]; o != nil {
				return o
			}
			return info.Uses[id]
		}
		return nil
	}
	// the variable a slice expression is built on: x, x[a:b], (x)
	var base func(e ast.Expr) types.Object
	base = func(e ast.Expr) types.Object {
		switch x := stripParens(e).(type) {
		case *ast.Ident:
			return obj(x)
		case *ast.SliceExpr:
			return base(x.X)
		}
		return nil
	}
	if fi.Decl.Recv != nil {
		for _, f := range fi.Decl.Recv.List {
			for _, n := range f.Names {
				bi.params[info.Defs[n]] = true
			}
		}
	}
	for _, f := range fi.Decl.Type.Params.List {
		for _, n := range f.Names {
			bi.params[info.Defs[n]] = true
		}
	}
	def := func(l ast.Expr, d bufDef) {
		if o := obj(l); o != nil {
			bi.defs[o] = append(bi.defs[o], d)
		}
	}
	ast.Inspect(fi.Decl.Body, func(n ast.Node) bool {
		switch x := n.(type) {
		case *ast.FuncLit:
			for _, f := range x.Type.Params.List {
				for _, nm := range f.Names {
					bi.params[info.Defs[nm]] = true
				}
			}
		case *ast.AssignStmt:
			for i, l := range x.Lhs {
				switch {
				case len(x.Lhs) == len(x.Rhs):
					def(l, bufDef{rhs: x.Rhs[i]})
				case len(x.Rhs) == 1:
					def(l, bufDef{rhs: x.Rhs[0], idx: i})
				}
				// stored somewhere that is not a local variable
				if _, isId := stripParens(l).(*ast.Ident); !isId && len(x.Lhs) == len(x.Rhs) {
					if o := base(x.Rhs[i]); o != nil {
						if _, seen := bi.retained[o]; !seen {
							bi.retained[o] = x.Pos()
						}
					}
				}
				// written into: x[i] = v
				if ix, isIx := stripParens(l).(*ast.IndexExpr); isIx {
					if o := base(ix.X); o != nil {
						bi.written[o] = x.Pos()
					}
				}
			}
		case *ast.ValueSpec:
			for i, nm := range x.Names {
				switch {
				case len(x.Values) == len(x.Names):
					def(nm, bufDef{rhs: x.Values[i]})
				case len(x.Values) == 1:
					def(nm, bufDef{rhs: x.Values[0], idx: i})
				case len(x.Values) == 0:
					def(nm, bufDef{rhs: &ast.Ident{Name: "nil", NamePos: nm.Pos()}})
				}
			}
		case *ast.RangeStmt:
			if x.Value != nil {
				def(x.Value, bufDef{rhs: x.X, idx: -1})
			}
			if x.Key != nil {
				if tp := info.TypeOf(x.X); tp != nil {
					if _, isChan := tp.Underlying().(*types.Chan); isChan {
						def(x.Key, bufDef{rhs: x.X, recv: true})
					}
				}
			}
		case *ast.CallExpr:
			name := ""
			switch f := stripParens(x.Fun).(type) {
			case *ast.Ident:
				name = f.Name
			case *ast.SelectorExpr:
				name = f.Sel.Name
			}
			switch name {
			case "copy":
				if len(x.Args) > 0 {
					if o := base(x.Args[0]); o != nil {
						bi.written[o] = x.Pos()
					}
				}
			case "Read", "ReadFull", "ReadAtLeast", "ReadAt", "PutUint16", "PutUint32", "PutUint64":
				for _, a := range x.Args {
					if o := base(a); o != nil {
						bi.written[o] = x.Pos()
					}
				}
			}
		case *ast.UnaryExpr:
			if x.Op == token.AND {
				if o := base(x.X); o != nil {
					if _, seen := bi.retained[o]; !seen {
						bi.retained[o] = x.Pos() // its address is taken: anybody may keep or change it
					}
				}
			}
		}
		return true
	})
	return bi
}

// does a value of this type carry a byte buffer (by value: through struct fields and arrays, not through pointers)?
func carriesBytes(tp types.Type, depth int) bool {
	if tp == nil || depth > 6 {
		return false
	}
	switch u := tp.Underlying().(type) {
	case *types.Slice:
		if b, ok := u.Elem().Underlying().(*types.Basic); ok && (b.Kind() == types.Uint8 || b.Kind() == types.Byte) {
			return true
		}
		return carriesBytes(u.Elem(), depth+1)
	case *types.Array:
		return carriesBytes(u.Elem(), depth+1)
	case *types.Struct:
		for i := 0; i < u.NumFields(); i++ {
			if carriesBytes(u.Field(i).Type(), depth+1) {
				return true
			}
		}
	}
	return false
}

var allocatingCalls = map[string]bool{
	"ReadMessage": true, "Marshal": true, "MarshalIndent": true, "ReadAll": true, "ReadFile": true,
	"MarshalText": true, "MarshalJSON": true, "MarshalBinary": true, "AppendFormat": false,
}

type bufCtx struct {
	t       *Trans
	fi      *FuncInfo
	visited map[types.Object]bool
}

// origin: "" if e is a fresh allocation of this activation or was received from a channel; otherwise why not
func (b *bufCtx) origin(e ast.Expr, idx int) string {
	info := b.fi.Pkg.Info
	pos := func(n ast.Node) string {
		p := b.t.fset.Position(n.Pos())
		return fmt.Sprintf("%s:%d", p.Filename, p.Line)
	}
	switch x := stripParens(e).(type) {
	case *ast.BasicLit, *ast.CompositeLit:
		if cl, ok := x.(*ast.CompositeLit); ok {
			for _, el := range cl.Elts {
				v := el
				if kv, isKV := el.(*ast.KeyValueExpr); isKV {
					v = kv.Value
				}
				if carriesBytes(info.TypeOf(v), 0) {
					if why := b.origin(v, 0); why != "" {
						return why
					}
				}
			}
		}
		return ""
	case *ast.Ident:
		if x.Name == "nil" {
			return ""
		}
		o := info.Uses[x]
		if o == nil {
			o = info.Defs[x]
		}
		v, isVar := o.(*types.Var)
		if !isVar {
			return ""
		}
		if v.Parent() == v.Pkg().Scope() {
			return fmt.Sprintf("%s is a package-level variable", x.Name)
		}
		bi := b.t.bufInfoOf(b.fi)
		if bi.params[o] {
			return fmt.Sprintf("%s is a parameter: the caller may still hold it", x.Name)
		}
		if p, kept := bi.retained[o]; kept {
			return fmt.Sprintf("%s is also kept beyond this activation (stored / address taken at %s)", x.Name, b.t.fset.Position(p))
		}
		if p, w := bi.written[o]; w {
			return fmt.Sprintf("%s is written into at %s", x.Name, b.t.fset.Position(p))
		}
		if b.visited[o] {
			return ""
		}
		b.visited[o] = true
		defs := bi.defs[o]
		if len(defs) == 0 {
			return fmt.Sprintf("%s has no visible definition in %s", x.Name, b.fi.Name)
		}
		for _, d := range defs {
			if d.recv {
				continue
			}
			if d.idx == -1 {
				return fmt.Sprintf("%s is an element of %s", x.Name, exprText(d.rhs))
			}
			if why := b.origin(d.rhs, d.idx); why != "" {
				return why
			}
		}
		return ""
	case *ast.UnaryExpr:
		if x.Op == token.ARROW {
			return "" // received: ownership was handed to this goroutine
		}
	case *ast.SliceExpr:
		return b.origin(x.X, 0)
	case *ast.SelectorExpr:
		// a field of a local struct value (message.data): as good as the struct value
		if id, ok := stripParens(x.X).(*ast.Ident); ok {
			if _, isPkg := info.Uses[id].(*types.PkgName); !isPkg {
				if sel := info.Selections[x]; sel != nil && sel.Kind() == types.FieldVal {
					if _, isPtr := info.TypeOf(x.X).(*types.Pointer); !isPtr {
						return b.origin(id, 0)
					}
				}
			}
		}
		return fmt.Sprintf("%s is reached through a field or pointer and may be shared (%s)", exprText(x), pos(x))
	case *ast.TypeAssertExpr:
		return b.origin(x.X, 0)
	case *ast.CallExpr:
		fun := stripParens(x.Fun)
		if id, ok := fun.(*ast.Ident); ok {
			if _, isB := info.Uses[id].(*types.Builtin); isB {
				switch id.Name {
				case "make", "new":
					return ""
				case "append":
					if len(x.Args) == 0 {
						return ""
					}
					if why := b.origin(x.Args[0], 0); why != "" {
						return fmt.Sprintf("append onto %s, which reuses its storage: %s", exprText(x.Args[0]), why)
					}
					return ""
				}
				return fmt.Sprintf("result of %s(...)", id.Name)
			}
		}
		if tv, ok := info.Types[fun]; ok && tv.IsType() {
			if len(x.Args) == 1 {
				if bt, isB := info.TypeOf(x.Args[0]).Underlying().(*types.Basic); isB && bt.Info()&types.IsString != 0 {
					return "" // []byte(string) copies
				}
				return b.origin(x.Args[0], 0)
			}
			return ""
		}
		if _, isArr := fun.(*ast.ArrayType); isArr && len(x.Args) == 1 {
			if tp := info.TypeOf(x.Args[0]); tp != nil {
				if bt, isB := tp.Underlying().(*types.Basic); isB && bt.Info()&types.IsString != 0 {
					return ""
				}
			}
			return b.origin(x.Args[0], 0)
		}
		if fid := funIdent(x.Fun); fid != nil {
			if fn, ok := info.Uses[fid].(*types.Func); ok {
				if callee := b.t.funcs[fn]; callee != nil {
					return b.t.freshResult(callee, idx)
				}
			}
			if allocatingCalls[fid.Name] {
				return ""
			}
			return fmt.Sprintf("result of %s(...), which is not known to return a fresh allocation (%s)", exprText(x.Fun), pos(x))
		}
	}
	return fmt.Sprintf("%s cannot be shown to be a fresh allocation", exprText(e))
}

// freshResult: "" if every return of fi yields, as its idx-th result, a buffer that is fresh and not kept
func (t *Trans) freshResult(fi *FuncInfo, idx int) string {
	if t.freshRes == nil {
		t.freshRes = map[string]string{}
		t.freshBusy = map[string]bool{}
	}
	key := fmt.Sprintf("%s#%d", fi.Name, idx)
	if r, ok := t.freshRes[key]; ok {
		return r
	}
	if t.freshBusy[key] {
		return ""
	}
	t.freshBusy[key] = true
	why := ""
	ast.Inspect(fi.Decl.Body, func(n ast.Node) bool {
		if _, isLit := n.(*ast.FuncLit); isLit {
			return false
		}
		r, ok := n.(*ast.ReturnStmt)
		if !ok || why != "" {
			return true
		}
		if len(r.Results) == 0 {
			why = fmt.Sprintf("%s returns through named results", fi.Name)
			return true
		}
		var e ast.Expr
		k := idx
		switch {
		case idx < len(r.Results) && len(r.Results) > 1 || len(r.Results) == 1 && idx == 0:
			e, k = r.Results[idx], 0
		case len(r.Results) == 1:
			e = r.Results[0] // return f(): the idx-th result of f
		default:
			why = fmt.Sprintf("%s: cannot match result %d", fi.Name, idx)
			return true
		}
		if !carriesBytes(fi.Pkg.Info.TypeOf(e), 0) && len(r.Results) > 1 {
			return true
		}
		b := &bufCtx{t: t, fi: fi, visited: map[types.Object]bool{}}
		if w := b.origin(e, k); w != "" {
			p := t.fset.Position(r.Pos())
			why = fmt.Sprintf("%s returns (%s:%d) a buffer that is not a fresh, unshared allocation: %s", fi.Name, p.Filename, p.Line, w)
		}
		return true
	})
	delete(t.freshBusy, key)
	t.freshRes[key] = why
	return why
}

// checkSent: IR for "this send hands a shared / unclassifiable byte buffer to other goroutines", or nil
func (c *fnCtx) checkSent(ch, v ast.Expr, at token.Pos) *Stmt {
	tp := c.pkg.Info.TypeOf(v)
	if !carriesBytes(tp, 0) {
		return nil
	}
	b := &bufCtx{t: c.t, fi: c.fi, visited: map[types.Object]bool{}}
	why := b.origin(v, 0)
	if why == "" {
		return nil
	}
	what := fmt.Sprintf("the value sent on %s carries a byte buffer that other goroutines will use while this one may still change it: %s", exprText(ch), why)
	what = strings.ReplaceAll(what, "\"", "'")
	return &Stmt{K: KWr, Ref: Ref{Name: exprText(ch)}, Label: "buffer (shared across goroutines): " + what, Pos: c.pos(at)}
}
