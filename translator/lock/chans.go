package main

import (
	"fmt"
	"go/ast"
	"go/constant"
	"go/token"
	"go/types"
	"sort"
	"strings"
)

// Channel capacities. The IR records sends and receives, not how much room a channel has - and some orderings in the
// relay hold only because a channel is a rendezvous (hub.register unbuffered: the hub has recorded the client before
// serveWs goes on to start its pumps). Every make(chan ...) of the translated packages is listed with the capacity it
// is created with; the table the design relies on is channel_table in coq/Model/LockIR.v (mirrored in chanReq below
// for the messages); the generated obligation gen_channel_capacities_ok compares the two.

type ChanDecl struct {
	Name  string `json:"name"`
	Const bool   `json:"const"`
	N     int    `json:"n"`
	Expr  string `json:"expr,omitempty"`
	Pos   string `json:"pos"`
}

var chanReq = map[string]string{
	"crossbar.Hub.register": "rendezvous", "crossbar.Hub.unregister": "rendezvous", "crossbar.Hub.broadcast": "rendezvous",
	"crossbar.Client.send": "queue", "relay.Relay.denied": "queue",
}

func (t *Trans) collectChannels() []ChanDecl {
	var out []ChanDecl
	for _, p := range t.pkgs {
		for _, f := range p.Files {
			var stack []ast.Node
			fn := ""
			ast.Inspect(f, func(n ast.Node) bool {
				if n == nil {
					stack = stack[:len(stack)-1]
					return true
				}
				stack = append(stack, n)
				if fd, ok := n.(*ast.FuncDecl); ok {
					fn = fd.Name.Name
					if obj, ok := p.Info.Defs[fd.Name].(*types.Func); ok && t.funcs[obj] != nil {
						fn = t.funcs[obj].Name
					} else {
						fn = pkgShort(p) + "." + fn
					}
				}
				call, ok := n.(*ast.CallExpr)
				if !ok || len(call.Args) == 0 {
					return true
				}
				id, ok := call.Fun.(*ast.Ident)
				if !ok || id.Name != "make" {
					return true
				}
				if _, isChan := call.Args[0].(*ast.ChanType); !isChan {
					return true
				}
				pos := t.fset.Position(call.Pos())
				d := ChanDecl{Const: true, Pos: fmt.Sprintf("%s:%d", pos.Filename, pos.Line)}
				if len(call.Args) > 1 {
					if tv, ok := p.Info.Types[call.Args[1]]; ok && tv.Value != nil && tv.Value.Kind() == constant.Int {
						v, _ := constant.Int64Val(tv.Value)
						d.N = int(v)
					} else {
						d.Const, d.Expr = false, exprText(call.Args[1])
					}
				}
				d.Name = chanName(t, p, stack, call, fn)
				out = append(out, d)
				return true
			})
		}
	}
	sort.SliceStable(out, func(i, j int) bool { return out[i].Name < out[j].Name })
	return out
}

// which channel does this make create: a struct field (composite literal), or a local variable of a function
func chanName(t *Trans, p *Pkg, stack []ast.Node, call *ast.CallExpr, fn string) string {
	if len(stack) < 2 {
		return "?"
	}
	structName := func(cl *ast.CompositeLit) (string, *types.Struct) {
		tp := p.Info.TypeOf(cl)
		if tp == nil {
			return "", nil
		}
		if n, ok := tp.(*types.Named); ok {
			if st, ok := n.Underlying().(*types.Struct); ok {
				return pkgShort(p) + "." + n.Obj().Name(), st
			}
		}
		return "", nil
	}
	parent := stack[len(stack)-2]
	switch x := parent.(type) {
	case *ast.KeyValueExpr:
		if len(stack) >= 3 {
			if cl, ok := stack[len(stack)-3].(*ast.CompositeLit); ok {
				if sn, _ := structName(cl); sn != "" {
					if k, ok := x.Key.(*ast.Ident); ok {
						return sn + "." + k.Name
					}
				}
			}
		}
	case *ast.CompositeLit:
		if sn, st := structName(x); sn != "" {
			for i, el := range x.Elts {
				if el == ast.Expr(call) && i < st.NumFields() {
					return sn + "." + st.Field(i).Name()
				}
			}
		}
	case *ast.AssignStmt:
		for i, r := range x.Rhs {
			if r == ast.Expr(call) && i < len(x.Lhs) {
				return fn + "." + exprText(x.Lhs[i])
			}
		}
	case *ast.ValueSpec:
		for i, r := range x.Values {
			if r == ast.Expr(call) && i < len(x.Names) {
				return fn + "." + x.Names[i].Name
			}
		}
	}
	pos := t.fset.Position(call.Pos())
	return fmt.Sprintf("%s (at %s:%d)", fn, pos.Filename, pos.Line)
}

func chanDiags(chs []ChanDecl) []Diag {
	var out []Diag
	seen := map[string]bool{}
	for _, c := range chs {
		seen[c.Name] = true
		switch chanReq[c.Name] {
		case "rendezvous":
			if !(c.Const && c.N == 0) {
				out = append(out, Diag{Func: c.Name, Kind: "channel-capacity", Check: "channel_capacities", Pos: c.Pos,
					Lock: fmt.Sprintf("%s is created with capacity %s, but the design relies on it being a RENDEZVOUS (unbuffered) channel: a send on it returns only when the receiver has taken the value, which is what orders the sender's next steps after the receiver's handling (e.g. the hub records a client before serveWs starts the client's pumps; with room in the channel an unregister can overtake the register and the closed connection stays a member for good)", c.Name, capText(c))})
			}
		case "queue":
			if c.Const && c.N == 0 {
				out = append(out, Diag{Func: c.Name, Kind: "channel-capacity", Check: "channel_capacities", Pos: c.Pos,
					Lock: fmt.Sprintf("%s is created unbuffered, but the design relies on it being a QUEUE with room (senders must not be parked on it)", c.Name)})
			}
		}
	}
	var names []string
	for n := range chanReq {
		names = append(names, n)
	}
	sort.Strings(names)
	for _, n := range names {
		if !seen[n] {
			out = append(out, Diag{Func: n, Kind: "channel-capacity", Check: "channel_capacities",
				Lock: n + " is in the channel table but no make(chan ...) creates it any more: the table (coq/Model/LockIR.v channel_table) no longer describes the code"})
		}
	}
	return out
}

func capText(c ChanDecl) string {
	if c.Const {
		return fmt.Sprint(c.N)
	}
	return c.Expr
}

func chanCoq(chs []ChanDecl) string {
	var xs []string
	for _, c := range chs {
		if c.Const {
			xs = append(xs, fmt.Sprintf("(%s, CapConst %d)", coqString(c.Name), c.N))
		} else {
			xs = append(xs, fmt.Sprintf("(%s, CapExpr %s)", coqString(c.Name), coqString(c.Expr)))
		}
	}
	return "[ " + strings.Join(xs, ";\n    ") + " ]"
}

var _ = token.NoPos
