package main

import (
	"fmt"
	"testing"
)

func TestDbg(t *testing.T) {
	tr, _, _ := translate("", nil, stMem(""))
	for _, fi := range tr.order {
		if fi.Name == "chanmap.Store.AliasLocked" {
			c := tr.newCtx(fi, true)
			f := c.stmts(fi.Decl.Body.List)
			fmt.Println("norm", f.norm != nil, "ret", f.ret != nil, len(c.defers))
			if f.norm != nil {
				fmt.Println(f.norm.Short())
			}
			fmt.Println(c.body(fi.Decl.Body).Short())
		}
	}
}
