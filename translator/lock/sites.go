package main

import (
	"go/ast"
	"go/types"
	"sort"
)

type types_Package = types.Package

// every X.Lock()/Unlock()/RLock()/RUnlock() call of the translated packages, with its line
func lockSites(t *Trans) []LockSite {
	var out []LockSite
	for _, p := range t.pkgs {
		for _, f := range p.Files {
			for _, d := range f.Decls {
				fd, ok := d.(*ast.FuncDecl)
				if !ok || fd.Body == nil {
					continue
				}
				name := fd.Name.Name
				if obj, ok := p.Info.Defs[fd.Name].(*types.Func); ok && t.funcs[obj] != nil {
					name = t.funcs[obj].Name
				}
				ast.Inspect(fd.Body, func(n ast.Node) bool {
					call, ok := n.(*ast.CallExpr)
					if !ok || len(call.Args) != 0 {
						return true
					}
					se, ok := call.Fun.(*ast.SelectorExpr)
					if !ok {
						return true
					}
					switch se.Sel.Name {
					case "Lock", "Unlock", "RLock", "RUnlock":
						pos := t.fset.Position(call.Pos())
						out = append(out, LockSite{File: pos.Filename, Line: pos.Line, Op: se.Sel.Name, Func: name})
					}
					return true
				})
			}
		}
	}
	sort.Slice(out, func(i, j int) bool {
		if out[i].File != out[j].File {
			return out[i].File < out[j].File
		}
		return out[i].Line < out[j].Line
	})
	return out
}

// other packages of the module: an exported guarded field must not be touched there
func scanOutside(t *Trans, f *ast.File, exported map[string]string) {
	ast.Inspect(f, func(n ast.Node) bool {
		se, ok := n.(*ast.SelectorExpr)
		if !ok {
			return true
		}
		for _, fi := range t.cbUnderLock {
			if fi.Exported && se.Sel.Name == fi.Decl.Name.Name {
				t.fail(se.Pos(), "%s (which invokes a callback while it may hold a lock) appears to be used outside the translated packages: that callback cannot be checked", fi.Name)
			}
		}
		if lab, g := exported[se.Sel.Name]; g {
			t.fail(se.Pos(), "field named %s (guarded: %s) is used outside its package; the translator only follows the four store packages", se.Sel.Name, lab)
		}
		return true
	})
}
