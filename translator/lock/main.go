// Command lock regenerates the lock IR of practable/relay from its current source (C12).
//
//	lock -repo <dir> -out <dir>        writes <out>/LockGen.v and <out>/LockSelftest.v
//	lock -repo <dir> -json <file>      also writes a machine-readable report (functions, IR, diagnostics)
//	lock -selftest                     runs the embedded corpus of small Go files with known verdicts
//	lock -overlay orig=replacement     read <replacement> wherever <repo>/<orig> would be read (mutation runs)
//
// Only the Go standard library is used (go/ast, go/parser, go/token, go/types with opaque imports).
// Anything touching a guarded field or a mutex that is not understood makes the command fail (non-zero
// exit, position printed): the translator fails closed.
package main

import (
	"encoding/json"
	"flag"
	"fmt"
	"go/token"
	"os"
	"path/filepath"
	"sort"
	"strings"
)

type Report struct {
	Repo        string         `json:"repo"`
	Functions   int            `json:"functions"`
	Helpers     []string       `json:"helpers"`
	Entries     []EntryReport  `json:"entries"`
	Diagnostics []Diag         `json:"diagnostics"`
	NotSingle   []Diag         `json:"not_single_section"`
	Errors      []string       `json:"errors"`
	Notes       []string       `json:"notes"`
	LockSites   []LockSite     `json:"lock_sites"`
	AccessLines []string       `json:"access_lines"` // file:line of every guarded-field access (for attributing race reports)
	Counts      map[string]int `json:"counts"`
	Channels    []ChanDecl     `json:"channels"`
}

type EntryReport struct {
	Name    string   `json:"name"`
	Kind    string   `json:"kind"`
	Pos     string   `json:"pos"`
	IR      string   `json:"ir"`
	Trivial bool     `json:"trivial"`
	Store   bool     `json:"store_method"`
	Reads   []string `json:"reads"`  // field labels read
	Writes  []string `json:"writes"` // field labels written
	Locks   []string `json:"locks"`  // mutex labels acquired
}

// LockSite is one Lock/Unlock/RLock/RUnlock line (the mutation self-check removes them one at a time)
type LockSite struct {
	File string `json:"file"`
	Line int    `json:"line"`
	Op   string `json:"op"`
	Func string `json:"func"`
}

type overlayFlag map[string]string

func (o overlayFlag) String() string { return "" }
func (o overlayFlag) Set(v string) error {
	i := strings.Index(v, "=")
	if i < 0 {
		return fmt.Errorf("want orig=replacement")
	}
	o[v[:i]] = v[i+1:]
	return nil
}

func translate(repo string, overlay map[string]string, mem map[string][]byte) (*Trans, *Report, error) {
	l := &Loader{repo: repo, fset: token.NewFileSet(), overlay: map[string]string{}, pkgs: map[string]*Pkg{}, fake: map[string]*types_Package{}, mem: mem}
	for k, v := range overlay {
		l.overlay[filepath.Join(repo, k)] = v
	}
	var err error
	if mem != nil {
		l.module = "example.org/selftest"
	} else if l.module, err = readModulePath(repo); err != nil {
		return nil, nil, err
	}
	pkgs, err := l.loadTargets(targetDirs)
	if err != nil {
		return nil, nil, err
	}
	t := &Trans{fset: l.fset, pkgs: pkgs}
	t.setup()
	if len(t.errs) == 0 {
		t.translateAll()
	}
	// exported guarded fields must not be touched by any other package of the module
	if mem == nil {
		skip := map[string]bool{}
		for _, d := range targetDirs {
			skip[d] = true
		}
		exported := map[string]string{}
		for _, gs := range guardSpecs {
			for f, lab := range gs.Fields {
				if token.IsExported(f) {
					exported[f] = lab
				}
			}
		}
		others, err := l.otherFiles(skip)
		if err != nil {
			return nil, nil, err
		}
		for _, f := range others {
			scanOutside(t, f, exported)
		}
	}
	rep := &Report{Repo: repo, Functions: len(t.order), Errors: t.errs, Notes: t.notes}
	guard, rank := guardMap()
	rep.Counts = map[string]int{}
	lines := map[string]bool{}
	defer func() { rep.AccessLines = keys(lines) }()
	sort.SliceStable(t.entries, func(i, j int) bool { return t.entries[i].Name < t.entries[j].Name })
	for _, fi := range t.order {
		if fi.isHelper() && !(fi.directCalls == 0 && fi.Recv != "") {
			rep.Helpers = append(rep.Helpers, fi.Name)
		}
	}
	for _, e := range t.entries {
		er := EntryReport{Name: e.Name, Kind: e.Kind, Pos: fmt.Sprintf("%s:%d", e.Pos.Filename, e.Pos.Line),
			IR: e.Body.Short(), Trivial: e.Body.trivial(), Store: e.Store}
		rs, ws, ls := map[string]bool{}, map[string]bool{}, map[string]bool{}
		e.Body.walk(func(x *Stmt) {
			switch x.K {
			case KRd:
				rs[x.Label] = true
				rep.Counts["rd"]++
			case KWr:
				ws[x.Label] = true
				rep.Counts["wr"]++
			case KAcq:
				ls[x.Label] = true
				if x.Ex {
					rep.Counts["acq_ex"]++
				} else {
					rep.Counts["acq_sh"]++
				}
			case KRel:
				rep.Counts["rel"]++
			case KBlock:
				rep.Counts["block"]++
			case KLoop:
				rep.Counts["loop"]++
			case KChoice:
				rep.Counts["choice"]++
			case KReturn:
				rep.Counts["return"]++
			}
			if (x.K == KRd || x.K == KWr) && x.Pos.IsValid() {
				lines[fmt.Sprintf("%s:%d", x.Pos.Filename, x.Pos.Line)] = true
			}
		})
		er.Reads, er.Writes, er.Locks = keys(rs), keys(ws), keys(ls)
		rep.Entries = append(rep.Entries, er)
		rep.Diagnostics = append(rep.Diagnostics, diagnose(e.Name, e.Body, guard, rank)...)
		if e.Store {
			if why := singleSection(e.Body, guard); why != "" {
				rep.NotSingle = append(rep.NotSingle, Diag{Func: e.Name, Kind: "not-a-single-critical-section", Lock: why, Check: "single_section"})
			}
		}
	}
	rep.LockSites = lockSites(t)
	t.channels = t.collectChannels()
	rep.Channels = t.channels
	if mem == nil {
		rep.Diagnostics = append(rep.Diagnostics, chanDiags(t.channels)...)
	}
	return t, rep, nil
}

func main() {
	repo := flag.String("repo", "/repo", "repository to translate")
	out := flag.String("out", "", "directory for LockGen.v / LockSelftest.v")
	jsonOut := flag.String("json", "", "write a JSON report here")
	self := flag.Bool("selftest", false, "run the embedded corpus only")
	dump := flag.Bool("dump", false, "print the IR of every non-trivial function")
	ov := overlayFlag{}
	flag.Var(ov, "overlay", "orig=replacement (repeatable)")
	flag.Parse()

	stOK, stLog, stCoq := selftest()
	if *self {
		fmt.Print(stLog)
		if !stOK {
			fmt.Println("SELFTEST FAILED")
			os.Exit(3)
		}
		fmt.Println("selftest ok")
		return
	}
	if !stOK {
		fmt.Print(stLog)
		fmt.Println("translator self-test failed: the translator itself is broken, nothing was generated")
		os.Exit(3)
	}
	t, rep, err := translate(*repo, ov, nil)
	if err != nil {
		fmt.Println("translator error:", err)
		os.Exit(2)
	}
	if *jsonOut != "" {
		b, _ := json.MarshalIndent(rep, "", " ")
		if err := os.WriteFile(*jsonOut, b, 0o644); err != nil {
			fmt.Println("translator error:", err)
			os.Exit(2)
		}
	}
	if *dump {
		for _, e := range rep.Entries {
			if !e.Trivial {
				fmt.Printf("%s = %s\n", e.Name, e.IR)
			}
		}
	}
	if len(t.errs) > 0 {
		fmt.Printf("lock translator: %d construct(s) touching a mutex or a guarded field could not be classified (failing closed):\n", len(t.errs))
		for _, e := range t.errs {
			fmt.Println("  " + e)
		}
		if *out != "" {
			// no IR for this tree: whatever an earlier run left must not be mistaken for it, and the obligations
			// cannot be discharged
			os.MkdirAll(*out, 0o755)
			for _, ext := range []string{".vo", ".vos", ".vok", ".glob"} {
				os.Remove(filepath.Join(*out, "LockGen"+ext))
			}
			var b strings.Builder
			b.WriteString("(* GENERATED by translator/lock: the translator FAILED CLOSED on the current source, there is no IR.\n")
			for _, e := range t.errs {
				b.WriteString("   " + strings.ReplaceAll(strings.ReplaceAll(e, "(*", "( *"), "*)", "* )") + "\n")
			}
			b.WriteString("*)\nFrom Relay Require Import Base.Prelude Model.LockIR.\n")
			b.WriteString("Definition translation_succeeded := false.\n")
			b.WriteString("Example gen_well_locked : translation_succeeded = true.\nProof. vm_compute. reflexivity. Qed.\n")
			os.WriteFile(filepath.Join(*out, "LockGen.v"), []byte(b.String()), 0o644)
		}
		os.Exit(1)
	}
	if *out != "" {
		if err := os.MkdirAll(*out, 0o755); err != nil {
			fmt.Println("translator error:", err)
			os.Exit(2)
		}
		// compiled objects of an earlier run must never be taken for this run's
		for _, base := range []string{"LockGen", "LockSelftest"} {
			for _, ext := range []string{".vo", ".vos", ".vok", ".glob"} {
				os.Remove(filepath.Join(*out, base+ext))
			}
		}
		if err := os.WriteFile(filepath.Join(*out, "LockGen.v"), []byte(genCoq(t)), 0o644); err != nil {
			fmt.Println("translator error:", err)
			os.Exit(2)
		}
		if err := os.WriteFile(filepath.Join(*out, "LockSelftest.v"), []byte(stCoq), 0o644); err != nil {
			fmt.Println("translator error:", err)
			os.Exit(2)
		}
	}
	nt := 0
	for _, e := range rep.Entries {
		if !e.Trivial {
			nt++
		}
	}
	fmt.Printf("lock translator: %d functions, %d entry bodies (%d touch locks/guarded fields/channels), %d helpers inlined, %d diagnostics\n",
		rep.Functions, len(rep.Entries), nt, len(rep.Helpers), len(rep.Diagnostics))
	for _, d := range rep.Diagnostics {
		fmt.Printf("  [%s] %s: %s %s %s (%s)\n", d.Check, d.Func, d.Kind, d.Field, d.Lock, d.Pos)
	}
}

func keys(m map[string]bool) []string {
	out := []string{}
	for k := range m {
		out = append(out, k)
	}
	sort.Strings(out)
	return out
}

func coqIdent(s string) string {
	var b strings.Builder
	for _, r := range s {
		switch {
		case r >= 'a' && r <= 'z', r >= 'A' && r <= 'Z', r >= '0' && r <= '9':
			b.WriteRune(r)
		default:
			b.WriteRune('_')
		}
	}
	return b.String()
}

func genCoq(t *Trans) string {
	var b strings.Builder
	b.WriteString("(* GENERATED by translator/lock from the current source of the repository - do not edit.\n")
	b.WriteString("   One body per function / method / goroutine literal of internal/{ttlcode,deny,chanmap,crossbar,access,relay};\n")
	b.WriteString("   helpers documented as \"caller holds the lock\" are inlined at their call sites. *)\n")
	b.WriteString("From Relay Require Import Base.Prelude Model.LockIR.\nLocal Open Scope string_scope.\n\n")
	var names, stores []string
	for _, e := range t.entries {
		id := "fn_" + coqIdent(e.Name)
		b.WriteString(fmt.Sprintf("(* %s  (%s, %s:%d) *)\n", e.Name, e.Kind, e.Pos.Filename, e.Pos.Line))
		b.WriteString(fmt.Sprintf("Definition %s : sstmt :=\n  %s.\n\n", id, e.Body.Coq("  ")))
		names = append(names, fmt.Sprintf("(%s, %s)", coqString(e.Name), id))
		if e.Store {
			stores = append(stores, coqString(e.Name))
		}
	}
	b.WriteString("Definition prog : program :=\n  [ " + strings.Join(names, ";\n    ") + " ].\n\n")
	b.WriteString("(* exported methods of the stores that embed their mutex: each must be one critical section *)\n")
	b.WriteString("Definition store_methods : list string :=\n  [ " + strings.Join(stores, ";\n    ") + " ].\n\n")
	b.WriteString("(* names of the functions each checker rejects (printed into the build log) *)\n")
	b.WriteString("Definition ill_locked := Eval vm_compute in failing well_locked_fn prog.\nPrint ill_locked.\n")
	b.WriteString("Definition blocking_while_locked := Eval vm_compute in failing no_block_fn prog.\nPrint blocking_while_locked.\n")
	b.WriteString("Definition out_of_order := Eval vm_compute in failing lock_order_fn prog.\nPrint out_of_order.\n\n")
	b.WriteString("(* the per-run obligations *)\n")
	b.WriteString("Example gen_well_locked : well_locked_prog prog = true.\nProof. vm_compute. reflexivity. Qed.\n\n")
	b.WriteString("Example gen_no_block_while_locked : no_block_while_locked prog = true.\nProof. vm_compute. reflexivity. Qed.\n\n")
	b.WriteString("Example gen_lock_order_ok : lock_order_ok prog = true.\nProof. vm_compute. reflexivity. Qed.\n\n")
	b.WriteString("Example gen_single_section : single_section_prog store_methods prog = true.\nProof. vm_compute. reflexivity. Qed.\n\n")
	b.WriteString("(* every make(chan ...) of the translated packages with the capacity it is created with *)\n")
	b.WriteString("Definition channels : list (string * chan_cap) :=\n  " + chanCoq(t.channels) + ".\n\n")
	b.WriteString("Example gen_channel_capacities_ok : channel_capacities_ok channels = true.\nProof. vm_compute. reflexivity. Qed.\n")
	return b.String()
}
