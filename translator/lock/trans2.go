package main

import (
	"fmt"
	"go/ast"
	"go/token"
	"go/types"
	"strings"
)

func exprText(e ast.Expr) string {
	switch x := e.(type) {
	case *ast.Ident:
		return x.Name
	case *ast.SelectorExpr:
		return exprText(x.X) + "." + x.Sel.Name
	case *ast.ParenExpr:
		return "(" + exprText(x.X) + ")"
	case *ast.StarExpr:
		return "*" + exprText(x.X)
	case *ast.CallExpr:
		return exprText(x.Fun) + "(...)"
	case *ast.IndexExpr:
		return exprText(x.X) + "[...]"
	case *ast.UnaryExpr:
		return x.Op.String() + exprText(x.X)
	}
	return "?"
}

func (c *fnCtx) block(ch ast.Expr, p token.Pos) *Stmt {
	return &Stmt{K: KBlock, Label: exprText(ch), Pos: c.pos(p)}
}

func (c *fnCtx) exprs(es []ast.Expr) *Stmt {
	var xs []*Stmt
	for _, e := range es {
		xs = append(xs, c.expr(e))
	}
	return seq(xs...)
}

// effects of evaluating e in a read context
func (c *fnCtx) expr(e ast.Expr) *Stmt {
	switch x := e.(type) {
	case nil:
		return skip()
	case *ast.BadExpr:
		c.t.fail(x.Pos(), "unparsable expression")
		return skip()
	case *ast.Ident:
		if r, l, _, ok := c.guarded(x); ok {
			return c.rd(r, l, x.Pos())
		}
		return skip()
	case *ast.BasicLit, *ast.ArrayType, *ast.MapType, *ast.ChanType, *ast.FuncType, *ast.InterfaceType, *ast.StructType, *ast.Ellipsis:
		return skip()
	case *ast.ParenExpr:
		return c.expr(x.X)
	case *ast.SelectorExpr:
		if r, l, _, ok := c.guarded(x); ok {
			return c.rd(r, l, x.Pos())
		}
		if sel := c.pkg.Info.Selections[x]; sel != nil {
			if v, ok := sel.Obj().(*types.Var); ok && c.t.mutexVars[v] != nil {
				if r, pok := c.pathOf(x.X); pok {
					if o, isObj := r.Root.(types.Object); isObj && c.fresh[o] {
						return skip()
					}
				}
				c.t.fail(x.Pos(), "mutex %s used as a value (only X.Lock()/Unlock()/RLock()/RUnlock() are understood)", c.t.mutexVars[v].LockLabel)
				return skip()
			}
		}
		if id, ok := x.X.(*ast.Ident); ok {
			if _, isPkg := c.objOf(id).(*types.PkgName); isPkg {
				return skip()
			}
		}
		return c.expr(x.X)
	case *ast.IndexExpr:
		return seq(c.expr(x.X), c.expr(x.Index))
	case *ast.IndexListExpr:
		return seq(c.expr(x.X), c.exprs(x.Indices))
	case *ast.SliceExpr:
		return seq(c.expr(x.X), c.expr(x.Low), c.expr(x.High), c.expr(x.Max))
	case *ast.StarExpr:
		c.wholeStruct(x, "copied")
		return c.expr(x.X)
	case *ast.TypeAssertExpr:
		return c.expr(x.X)
	case *ast.UnaryExpr:
		switch x.Op {
		case token.ARROW:
			return seq(c.expr(x.X), c.block(x.X, x.Pos()))
		case token.AND:
			if _, l, _, _, ok := c.baseGuarded(x.X); ok {
				c.t.fail(x.Pos(), "address of guarded data %s taken (aliasing)", l)
				return skip()
			}
			if cl, ok := stripParens(x.X).(*ast.CompositeLit); ok {
				return c.expr(cl)
			}
		}
		return c.expr(x.X)
	case *ast.BinaryExpr:
		return seq(c.expr(x.X), c.expr(x.Y))
	case *ast.KeyValueExpr:
		var k *Stmt
		if _, isId := x.Key.(*ast.Ident); !isId {
			k = c.expr(x.Key)
		}
		c.escapes(x.Value, "is stored in a composite literal")
		return seq(k, c.expr(x.Value))
	case *ast.CompositeLit:
		var xs []*Stmt
		for _, el := range x.Elts {
			if _, kv := el.(*ast.KeyValueExpr); !kv {
				c.escapes(el, "is stored in a composite literal")
			}
			xs = append(xs, c.expr(el))
		}
		return seq(xs...)
	case *ast.FuncLit:
		c.literal(x, "callback-literal")
		return skip()
	case *ast.CallExpr:
		return c.call(x)
	}
	c.t.fail(e.Pos(), "expression form %T not understood", e)
	return skip()
}

func (c *fnCtx) calleeOf(call *ast.CallExpr) *types.Func {
	if id := funIdent(call.Fun); id != nil {
		if fn, ok := c.pkg.Info.Uses[id].(*types.Func); ok {
			return fn
		}
	}
	return nil
}

func (c *fnCtx) call(call *ast.CallExpr) *Stmt {
	if s, ok := c.lockOp(call); ok {
		if s.K != KSkip {
			c.t.fail(call.Pos(), "lock operation inside an expression or in a position the translator does not model")
		}
		return skip()
	}
	fun := stripParens(call.Fun)
	// builtins
	if id, ok := fun.(*ast.Ident); ok {
		if _, isB := c.objOf(id).(*types.Builtin); isB {
			switch id.Name {
			case "delete", "clear", "copy":
				if len(call.Args) > 0 {
					if r, l, idx, _, g := c.baseGuarded(call.Args[0]); g {
						return seq(idx, c.exprs(call.Args[1:]), c.wr(r, l, call.Pos()))
					}
				}
			case "close":
				if len(call.Args) == 1 {
					if r, l, _, g := c.guarded(call.Args[0]); g {
						return c.wr(r, l, call.Pos())
					}
				}
			}
			return c.exprs(call.Args)
		}
	}
	// invocation of a func-typed parameter of the enclosing function: resolved where the function is inlined
	if id, ok := fun.(*ast.Ident); ok {
		if o := c.objOf(id); o != nil && c.t.funcParams[o] != nil {
			for _, a := range call.Args {
				c.escapes(a, "is passed to a callback")
			}
			return seq(c.exprs(call.Args), &Stmt{K: KCallParam, Param: o, Label: id.Name, Pos: c.pos(call.Pos())})
		}
	}
	// conversions
	if tv, ok := c.pkg.Info.Types[fun]; ok && tv.IsType() {
		return c.exprs(call.Args)
	}
	switch fun.(type) {
	case *ast.ArrayType, *ast.MapType, *ast.ChanType, *ast.FuncType, *ast.InterfaceType, *ast.StarExpr:
		return c.exprs(call.Args)
	}
	// immediately invoked literal
	if lit, ok := fun.(*ast.FuncLit); ok {
		args := c.exprs(call.Args)
		c.literal(lit, "callback-literal")
		return args
	}
	// method called on guarded data
	if se, ok := fun.(*ast.SelectorExpr); ok {
		if r, l, idx, _, g := c.baseGuarded(se.X); g {
			for _, a := range call.Args {
				c.escapes(a, "is passed to a method")
			}
			if readOnlyMethods[se.Sel.Name] {
				return seq(idx, c.exprs(call.Args), c.rd(r, l, se.Pos()))
			}
			return seq(idx, c.exprs(call.Args), c.wr(r, l, se.Pos()))
		}
	}
	// a function of the translated packages: inline its body
	if fn := c.calleeOf(call); fn != nil {
		if fi := c.t.funcs[fn]; fi != nil {
			var recv ast.Expr
			var pre *Stmt
			if se, ok := fun.(*ast.SelectorExpr); ok && fi.Decl.Recv != nil {
				recv = se.X
				pre = c.expr(se.X)
			}
			for _, a := range call.Args {
				c.escapes(a, "is passed to a function")
			}
			// arguments bound to a callback parameter the callee invokes are resolved inside inlineCall
			cb := c.callbackArgs(fi, call.Args)
			var plain []ast.Expr
			for i, a := range call.Args {
				if !cb[i] {
					plain = append(plain, a)
				}
			}
			return seq(pre, c.exprs(plain), c.inlineCall(fi, recv, call.Args, call.Pos()))
		}
	}
	// opaque callee (other package, function value, interface method)
	for _, a := range call.Args {
		c.escapes(a, "is passed to a function outside the translated packages")
	}
	if why, bad := c.t.connBad[call.Pos()]; bad {
		return seq(c.expr(fun), c.exprs(call.Args),
			&Stmt{K: KWr, Ref: Ref{Name: exprText(fun)}, Label: "websocket connection (second writer): " + strings.ReplaceAll(why, "\"", "'"), Pos: c.pos(call.Pos())})
	}
	return seq(c.expr(fun), c.exprs(call.Args))
}

// which arguments are bound to func-typed parameters that the callee invokes (directly, in its own body)
func (c *fnCtx) callbackArgs(fi *FuncInfo, args []ast.Expr) map[int]bool {
	out := map[int]bool{}
	body := c.t.inlineBody(fi, fi.Decl.Pos())
	if body == nil || !body.hasCallParam() {
		return out
	}
	invoked := map[interface{}]bool{}
	body.walk(func(x *Stmt) {
		if x.K == KCallParam {
			invoked[x.Param] = true
		}
	})
	i := 0
	for _, f := range fi.Decl.Type.Params.List {
		for _, n := range f.Names {
			if o := fi.Pkg.Info.Defs[n]; o != nil && invoked[o] && i < len(args) {
				out[i] = true
			}
			i++
		}
		if len(f.Names) == 0 {
			i++
		}
	}
	return out
}

// IR of what happens when the function value `arg` is invoked here
func (c *fnCtx) resolveCallback(arg ast.Expr, at token.Pos) (*Stmt, bool) {
	switch x := stripParens(arg).(type) {
	case *ast.FuncLit:
		return c.deferredLiteral(x), true
	case *ast.Ident:
		if x.Name == "nil" {
			return skip(), true
		}
		o := c.objOf(x)
		if o != nil && c.t.funcParams[o] != nil {
			return &Stmt{K: KCallParam, Param: o, Label: x.Name, Pos: c.pos(at)}, true // handed on: resolved one level up
		}
		if fn, ok := o.(*types.Func); ok {
			if fi := c.t.funcs[fn]; fi != nil {
				return c.inlineCall(fi, nil, nil, at), true
			}
		}
	case *ast.SelectorExpr:
		if fn, ok := c.pkg.Info.Uses[x.Sel].(*types.Func); ok {
			if fi := c.t.funcs[fn]; fi != nil {
				var recv ast.Expr
				if fi.Decl.Recv != nil {
					recv = x.X
				}
				return c.inlineCall(fi, recv, nil, at), true // method value: receiver bound now
			}
		}
	}
	return nil, false
}

func (c *fnCtx) inlineCall(fi *FuncInfo, recv ast.Expr, args []ast.Expr, at token.Pos) *Stmt {
	body := c.t.inlineBody(fi, at)
	if body == nil || body.trivial() {
		return skip()
	}
	type bind struct {
		ref Ref
		ok  bool
		e   ast.Expr
	}
	m := map[types.Object]bind{}
	c.noRecord = true
	if fi.Decl.Recv != nil && recv != nil {
		for _, f := range fi.Decl.Recv.List {
			for _, n := range f.Names {
				r, ok := c.pathOf(recv)
				m[fi.Pkg.Info.Defs[n]] = bind{r, ok, recv}
			}
		}
	}
	i := 0
	for _, f := range fi.Decl.Type.Params.List {
		for _, n := range f.Names {
			if i < len(args) {
				r, ok := c.pathOf(args[i])
				m[fi.Pkg.Info.Defs[n]] = bind{r, ok, args[i]}
			}
			i++
		}
		if len(f.Names) == 0 {
			i++
		}
	}
	c.noRecord = false
	return body.subst(func(r Ref) Ref {
		o, isObj := r.Root.(types.Object)
		if !isObj {
			return r
		}
		if b, bound := m[o]; bound {
			if !b.ok {
				c.t.fail(at, "call of %s: argument %s is used by the callee to reach a lock or a guarded field but is not a variable/field path", fi.Name, exprText(b.e))
				return r
			}
			c.noteRoot(b.ref, at)
			return Ref{Root: b.ref.Root, Path: append(append([]string{}, b.ref.Path...), r.Path...)}
		}
		if v, isVar := o.(*types.Var); isVar && v.Parent() == v.Pkg().Scope() {
			return r // package-level variable: the same in caller and callee
		}
		return Ref{Root: qroot{o, fi.Name}, Path: r.Path}
	}, func(x *Stmt) *Stmt {
		po, _ := x.Param.(types.Object)
		b, bound := m[po]
		if !bound {
			if c.t.funcParams[po] == fi {
				// the callee invokes a callback we were given no argument for (method value / function reference)
				c.t.fail(at, "%s invokes its callback parameter %s, which is unknown at this use of the function", fi.Name, x.Label)
				return skip()
			}
			return x // a parameter of an outer function: resolved further up
		}
		s, ok := c.resolveCallback(b.e, at)
		if !ok {
			c.t.fail(at, "call of %s: the callback argument %s is invoked by the callee (possibly while it holds a lock) and cannot be resolved to a function literal, a function or a method", fi.Name, exprText(b.e))
			return skip()
		}
		return s
	})
}

// body of fi as it runs inside a caller: return statements become normal completion
func (t *Trans) inlineBody(fi *FuncInfo, at token.Pos) *Stmt {
	if s, ok := t.inlineIR[fi.Obj]; ok {
		return s
	}
	if t.inProg[fi.Obj] {
		t.fail(at, "recursive call of %s: not supported", fi.Name)
		return nil
	}
	t.inProg[fi.Obj] = true
	c := t.newCtx(fi, true)
	s := c.body(fi.Decl.Body)
	c.finish(s)
	delete(t.inProg, fi.Obj)
	t.inlineIR[fi.Obj] = s
	return s
}

// whole body: normal completion runs the deferred actions; in entry mode returns are Return nodes
func (c *fnCtx) body(b *ast.BlockStmt) *Stmt {
	f := c.stmts(b.List)
	var end *Stmt
	if f.norm != nil {
		end = seq(f.norm, c.runDefers())
	}
	s := choice(end, f.ret)
	if s == nil {
		s = skip()
	}
	if f.brk != nil || f.cont != nil {
		c.t.fail(b.Pos(), "break/continue outside a loop")
	}
	return s
}

func (c *fnCtx) runDefers() *Stmt {
	var xs []*Stmt
	for i := len(c.defers) - 1; i >= 0; i-- {
		xs = append(xs, c.defers[i])
	}
	return seq(xs...)
}

// checks that need the whole function: stability of lock prefixes, callbacks under a lock
func (c *fnCtx) finish(s *Stmt) {
	for o, p := range c.asgRoots {
		if _, used := c.refRoots[o]; used {
			c.t.fail(p, "variable %s is a prefix of a lock or guarded field and is re-assigned in the same function: lock identity would not be stable", o.Name())
		}
	}
	if s.hasLockOp() {
		for _, cb := range c.callbacks {
			if !cb.trivial() && !cb.onlyPseudo() {
				c.t.fail(c.fi.Decl.Pos(), "%s takes locks and also contains a function literal that touches locks, guarded fields or channels: call order unknown", c.fi.Name)
			}
		}
	}
}

func (c *fnCtx) literal(lit *ast.FuncLit, kind string) {
	*c.litN++
	sub := &fnCtx{t: c.t, pkg: c.pkg, fi: c.fi, inline: false, taint: map[types.Object]taintInfo{}, captured: map[types.Object]bool{},
		fresh: c.fresh, refRoots: map[types.Object]token.Pos{}, asgRoots: map[types.Object]token.Pos{}, litN: c.litN, ctor: c.ctor}
	for o := range c.taint {
		sub.captured[o] = true
	}
	for o := range c.captured {
		sub.captured[o] = true
	}
	name := c.fi.Name + "$" + itoa(*c.litN)
	s := sub.body(lit.Body)
	sub.finish(s)
	c.callbacks = append(c.callbacks, sub.callbacks...)
	if kind == "callback-literal" {
		c.callbacks = append(c.callbacks, s)
	}
	c.t.entries = append(c.t.entries, &Entry{Name: name, Kind: kind, Pos: c.pos(lit.Pos()), Body: s})
}

func itoa(n int) string {
	if n == 0 {
		return "0"
	}
	var b []byte
	for n > 0 {
		b = append([]byte{byte('0' + n%10)}, b...)
		n /= 10
	}
	return string(b)
}

// deferred closure: runs at function exit in the same goroutine
func (c *fnCtx) deferredLiteral(lit *ast.FuncLit) *Stmt {
	sub := &fnCtx{t: c.t, pkg: c.pkg, fi: c.fi, inline: true, taint: c.taint, captured: c.captured,
		fresh: c.fresh, refRoots: c.refRoots, asgRoots: c.asgRoots, litN: c.litN, ctor: c.ctor}
	s := sub.body(lit.Body)
	c.callbacks = append(c.callbacks, sub.callbacks...)
	return s
}

// ---------------------------------------------------------------------------------------------
// statements

func seqFlow(a, b flow) flow {
	var r flow
	if a.norm != nil && b.norm != nil {
		r.norm = seq(a.norm, b.norm)
	}
	pre := func(x *Stmt) *Stmt {
		if a.norm == nil || x == nil {
			return nil
		}
		return seq(a.norm, x)
	}
	r.brk = choice(a.brk, pre(b.brk))
	r.cont = choice(a.cont, pre(b.cont))
	r.ret = choice(a.ret, pre(b.ret))
	return r
}

func prefixFlow(p *Stmt, f flow) flow {
	return seqFlow(flow{norm: p}, f)
}

func choiceFlow(fs ...flow) flow {
	var r flow
	for _, f := range fs {
		r.norm = choice(r.norm, f.norm)
		r.brk = choice(r.brk, f.brk)
		r.cont = choice(r.cont, f.cont)
		r.ret = choice(r.ret, f.ret)
	}
	return r
}

func (c *fnCtx) stmts(l []ast.Stmt) flow {
	r := flow{norm: skip()}
	for _, s := range l {
		r = seqFlow(r, c.stmt(s))
	}
	return r
}

func (c *fnCtx) nested(f func() flow) flow {
	c.depth++
	defer func() { c.depth-- }()
	return f()
}

func (c *fnCtx) simple(s *Stmt) flow {
	if s == nil {
		s = skip()
	}
	return flow{norm: s}
}

func (c *fnCtx) stmt(s ast.Stmt) flow {
	switch x := s.(type) {
	case nil, *ast.EmptyStmt:
		return c.simple(skip())
	case *ast.BadStmt:
		c.t.fail(x.Pos(), "unparsable statement")
		return c.simple(skip())
	case *ast.BlockStmt:
		return c.nested(func() flow { return c.stmts(x.List) })
	case *ast.ExprStmt:
		if call, ok := stripParens(x.X).(*ast.CallExpr); ok {
			if op, isLock := c.lockOp(call); isLock {
				return c.simple(op)
			}
		}
		return c.simple(c.expr(x.X))
	case *ast.SendStmt:
		c.escapes(x.Value, "is sent on a channel")
		return c.simple(seq(c.expr(x.Chan), c.expr(x.Value), c.checkSent(x.Chan, x.Value, x.Pos()), c.block(x.Chan, x.Pos()), &Stmt{K: KMark, Label: "send on " + exprText(x.Chan)}))
	case *ast.IncDecStmt:
		return c.simple(c.assign([]ast.Expr{x.X}, nil, token.ADD_ASSIGN, x.Pos()))
	case *ast.AssignStmt:
		return c.simple(c.assign(x.Lhs, x.Rhs, x.Tok, x.Pos()))
	case *ast.DeclStmt:
		gd, ok := x.Decl.(*ast.GenDecl)
		if !ok || gd.Tok != token.VAR {
			return c.simple(skip())
		}
		var xs []*Stmt
		for _, sp := range gd.Specs {
			vs := sp.(*ast.ValueSpec)
			if len(vs.Values) == 0 {
				continue
			}
			var lhs []ast.Expr
			for _, n := range vs.Names {
				lhs = append(lhs, n)
			}
			xs = append(xs, c.assign(lhs, vs.Values, token.DEFINE, vs.Pos()))
		}
		return c.simple(seq(xs...))
	case *ast.GoStmt:
		if lit, ok := stripParens(x.Call.Fun).(*ast.FuncLit); ok {
			args := c.exprs(x.Call.Args)
			c.literal(lit, "go-literal")
			return c.simple(args)
		}
		for _, a := range x.Call.Args {
			c.escapes(a, "is passed to a goroutine")
		}
		var pre *Stmt
		if se, ok := stripParens(x.Call.Fun).(*ast.SelectorExpr); ok {
			pre = c.expr(se.X)
		}
		return c.simple(seq(pre, c.exprs(x.Call.Args)))
	case *ast.DeferStmt:
		return c.simple(c.deferStmt(x))
	case *ast.ReturnStmt:
		for _, r := range x.Results {
			c.escapes(r, "is returned")
		}
		eff := seq(c.exprs(x.Results), c.runDefers())
		if c.inline {
			return flow{ret: eff}
		}
		return flow{norm: seq(eff, &Stmt{K: KReturn, Pos: c.pos(x.Pos())})}
	case *ast.BranchStmt:
		if x.Label != nil || x.Tok == token.GOTO || x.Tok == token.FALLTHROUGH {
			c.t.fail(x.Pos(), "%s with a label / goto / fallthrough is not supported", x.Tok)
			return c.simple(skip())
		}
		if x.Tok == token.BREAK {
			return flow{brk: skip()}
		}
		return flow{cont: skip()}
	case *ast.LabeledStmt:
		c.t.fail(x.Pos(), "labelled statements are not supported")
		return c.stmt(x.Stmt)
	case *ast.IfStmt:
		return c.nested(func() flow {
			init := c.stmt(x.Init)
			cond := c.expr(x.Cond)
			th := c.stmts(x.Body.List)
			el := flow{norm: skip()}
			if x.Else != nil {
				el = c.stmt(x.Else)
			}
			return seqFlow(init, prefixFlow(cond, choiceFlow(th, el)))
		})
	case *ast.ForStmt:
		return c.nested(func() flow {
			init := c.stmt(x.Init)
			cond := c.expr(x.Cond)
			body := c.stmts(x.Body.List)
			post := c.stmt(x.Post)
			return seqFlow(init, c.loopFlow(cond, body, post.norm, x.Cond != nil))
		})
	case *ast.RangeStmt:
		return c.nested(func() flow { return c.rangeStmt(x) })
	case *ast.SwitchStmt:
		return c.nested(func() flow {
			init := c.stmt(x.Init)
			tag := c.expr(x.Tag)
			return seqFlow(init, prefixFlow(tag, c.clauses(x.Body.List)))
		})
	case *ast.TypeSwitchStmt:
		return c.nested(func() flow {
			init := c.stmt(x.Init)
			var a *Stmt
			switch y := x.Assign.(type) {
			case *ast.ExprStmt:
				a = c.expr(y.X)
			case *ast.AssignStmt:
				a = c.exprs(y.Rhs)
			}
			return seqFlow(init, prefixFlow(a, c.clauses(x.Body.List)))
		})
	case *ast.SelectStmt:
		return c.nested(func() flow { return c.selectStmt(x) })
	}
	c.t.fail(s.Pos(), "statement form %T not understood", s)
	return c.simple(skip())
}

// for: (cond; body-or-continue; post)* then either the condition fails or a path ending in break.
func (c *fnCtx) loopFlow(cond *Stmt, body flow, post *Stmt, canExit bool) flow {
	iter := choice(body.norm, body.cont)
	var lp *Stmt
	if iter != nil {
		lp = loop(seq(iter, post, cond))
	} else {
		lp = skip()
	}
	head := seq(cond, lp)
	var r flow
	var exit *Stmt
	if canExit {
		exit = skip()
	}
	after := choice(exit, body.brk)
	if after != nil {
		r.norm = seq(head, after)
	} else if !body.hasAbrupt() {
		// for { ... } without break: never completes normally. The IR's Loop may always exit, so what follows is
		// checked as well (over-approximation).
		r.norm = head
	} else {
		r.norm = head
	}
	if body.ret != nil {
		r.ret = seq(head, body.ret)
	}
	return r
}

func (f flow) hasAbrupt() bool { return f.brk != nil || f.ret != nil }

func (c *fnCtx) rangeStmt(x *ast.RangeStmt) flow {
	var rd *Stmt
	ref, label, idx, _, g := c.baseGuarded(x.X)
	if g {
		rd = seq(idx, c.rd(ref, label, x.X.Pos()))
	} else {
		rd = c.expr(x.X)
	}
	isChan := false
	if tp := c.pkg.Info.TypeOf(x.X); tp != nil {
		_, isChan = tp.Underlying().(*types.Chan)
	}
	if isChan {
		rd = seq(rd, c.block(x.X, x.Pos()))
	}
	// the value variable may alias an inner map
	if g && x.Value != nil {
		if id, ok := x.Value.(*ast.Ident); ok && id.Name != "_" {
			if o := c.objOf(id); o != nil && refLike(o.Type()) {
				if x.Tok == token.DEFINE {
					c.taint[o] = taintInfo{ref, label}
				} else {
					c.t.fail(x.Pos(), "range over guarded %s assigns an inner reference to an existing variable (aliasing)", label)
				}
			}
		} else if !ok {
			c.t.fail(x.Pos(), "range over guarded %s into a non-variable", label)
		}
	}
	for _, e := range []ast.Expr{x.Key, x.Value} {
		if e == nil {
			continue
		}
		if _, ok := e.(*ast.Ident); !ok {
			if _, _, _, _, gd := c.baseGuarded(e); gd {
				c.t.fail(e.Pos(), "range assigns into guarded data: not supported")
			}
		}
		if id, ok := e.(*ast.Ident); ok {
			if x.Tok != token.DEFINE && id.Name != "_" {
				if o := c.objOf(id); o != nil {
					c.asgRoots[o] = id.Pos()
				}
			}
		}
	}
	body := c.stmts(x.Body.List)
	// loopFlow re-evaluates rd at every iteration: the guarded map is read again each time round
	return c.loopFlow(rd, body, nil, true)
}

func (c *fnCtx) clauses(list []ast.Stmt) flow {
	var arms []flow
	hasDefault := false
	for _, cl := range list {
		cc := cl.(*ast.CaseClause)
		if cc.List == nil {
			hasDefault = true
		}
		pre := c.exprs(cc.List)
		b := c.stmts(cc.Body)
		// break leaves the switch: it completes the statement normally
		b.norm, b.brk = choice(b.norm, b.brk), nil
		arms = append(arms, prefixFlow(pre, b))
	}
	if !hasDefault {
		arms = append(arms, flow{norm: skip()})
	}
	return choiceFlow(arms...)
}

func (c *fnCtx) selectStmt(x *ast.SelectStmt) flow {
	hasDefault := false
	for _, cl := range x.Body.List {
		if cl.(*ast.CommClause).Comm == nil {
			hasDefault = true
		}
	}
	if len(x.Body.List) == 0 {
		return c.simple(&Stmt{K: KBlock, Label: "select{}", Pos: c.pos(x.Pos())})
	}
	var arms []flow
	c.t.selN++
	selID := c.t.selN
	for armNo, cl := range x.Body.List {
		cc := cl.(*ast.CommClause)
		var pre *Stmt
		blk := func(ch ast.Expr) *Stmt {
			if hasDefault {
				return nil // a select with a default never waits
			}
			return c.block(ch, cc.Pos())
		}
		recv := func(e ast.Expr) *Stmt {
			if u, ok := stripParens(e).(*ast.UnaryExpr); ok && u.Op == token.ARROW {
				return seq(c.expr(u.X), blk(u.X))
			}
			c.t.fail(e.Pos(), "select case is not a channel operation")
			return skip()
		}
		switch cm := cc.Comm.(type) {
		case nil:
		case *ast.SendStmt:
			c.escapes(cm.Value, "is sent on a channel")
			pre = seq(c.expr(cm.Chan), c.expr(cm.Value), c.checkSent(cm.Chan, cm.Value, cm.Pos()), blk(cm.Chan), &Stmt{K: KMark, Label: "send on " + exprText(cm.Chan)})
		case *ast.ExprStmt:
			pre = recv(cm.X)
		case *ast.AssignStmt:
			if len(cm.Rhs) == 1 {
				pre = recv(cm.Rhs[0])
				for _, l := range cm.Lhs {
					if _, isId := stripParens(l).(*ast.Ident); !isId {
						pre = seq(pre, c.assign([]ast.Expr{l}, nil, token.ASSIGN, cm.Pos()))
					} else if cm.Tok != token.DEFINE {
						if o := c.objOf(stripParens(l).(*ast.Ident)); o != nil {
							c.asgRoots[o] = l.Pos()
						}
					}
				}
			}
		}
		b := c.stmts(cc.Body)
		b.norm, b.brk = choice(b.norm, b.brk), nil
		arms = append(arms, prefixFlow(seq(&Stmt{K: KMark, Sel: selID, Arm: armNo + 1}, pre), b))
	}
	return choiceFlow(arms...)
}

func (c *fnCtx) deferStmt(x *ast.DeferStmt) *Stmt {
	var act, now *Stmt
	if op, isLock := c.lockOp(x.Call); isLock {
		act = op
	} else if lit, ok := stripParens(x.Call.Fun).(*ast.FuncLit); ok {
		now = c.exprs(x.Call.Args)
		act = c.deferredLiteral(lit)
	} else {
		// arguments are evaluated now, the call happens at exit
		full := c.call(x.Call)
		if full.trivial() {
			return skip()
		}
		// split is only possible when the arguments have no effects of their own
		args := c.exprs(x.Call.Args)
		if !args.trivial() {
			c.t.fail(x.Pos(), "deferred call whose arguments touch guarded fields: evaluation order not modelled")
		}
		act = full
	}
	if act == nil || act.trivial() {
		return now
	}
	if c.depth > 0 {
		c.t.fail(x.Pos(), "defer of a lock operation inside a nested block (conditional defer) is not supported")
		return now
	}
	c.defers = append(c.defers, act)
	return now
}

// assignment: right-hand sides are read, then targets written
func (c *fnCtx) assign(lhs, rhs []ast.Expr, tok token.Token, at token.Pos) *Stmt {
	var xs []*Stmt
	for _, r := range rhs {
		xs = append(xs, c.expr(r))
	}
	rhsFor := func(i int) ast.Expr {
		if len(rhs) == len(lhs) {
			return rhs[i]
		}
		if len(rhs) == 1 && i == 0 {
			return rhs[0] // v, ok := m[k]
		}
		return nil
	}
	for i, l := range lhs {
		r := rhsFor(i)
		l = stripParens(l)
		switch x := l.(type) {
		case *ast.Ident:
			if x.Name == "_" {
				if r != nil {
					// value dropped
				}
				continue
			}
			o := c.objOf(x)
			if o == nil {
				continue
			}
			if tok != token.DEFINE || c.pkg.Info.Defs[x] == nil {
				c.asgRoots[o] = x.Pos()
			}
			if c.ctor && tok == token.DEFINE && r != nil && isFreshValue(r) {
				c.fresh[o] = true
			}
			if ti, was := c.taint[o]; was && tok != token.DEFINE {
				// writing the alias variable itself does not touch guarded data; it stays an alias (conservative)
				_ = ti
			}
			if r == nil {
				continue
			}
			if ref, label, isRef := c.directRef(r); isRef {
				if v, isVar := o.(*types.Var); isVar && v.Parent() != nil && v.Parent() != v.Pkg().Scope() {
					c.taint[o] = taintInfo{ref, label}
				} else {
					c.t.fail(r.Pos(), "guarded data %s is stored in a non-local variable (aliasing)", label)
				}
			}
		case *ast.SelectorExpr:
			if ref, label, _, ok := c.guarded(x); ok {
				if r != nil {
					if r2, l2, isRef := c.directRef(r); isRef && !(l2 == label && sameRef(r2, ref)) {
						c.t.fail(r.Pos(), "guarded data %s is stored into %s (aliasing)", l2, label)
					}
				}
				xs = append(xs, c.wr(ref, label, x.Pos()))
				continue
			}
			if sel := c.pkg.Info.Selections[x]; sel != nil {
				if v, ok := sel.Obj().(*types.Var); ok && c.t.mutexVars[v] != nil {
					if rr, pok := c.pathOf(x.X); !pok || !c.isFresh(rr) {
						c.t.fail(x.Pos(), "mutex %s is re-assigned", c.t.mutexVars[v].LockLabel)
					}
					continue
				}
			}
			if r != nil {
				c.escapes(r, "is stored in a field")
			}
			if sel := c.pkg.Info.Selections[x]; sel != nil {
				if v, ok := sel.Obj().(*types.Var); ok {
					private := false
					if rr, pok := c.pathOf(x.X); pok && len(rr.Path) == 0 {
						if root, isObj := rr.Root.(types.Object); isObj {
							private = c.t.stillPrivate(c.fi, root, x.Pos()) || c.fresh[root]
						}
					}
					if _, isPub := c.t.pubFields[v]; !isPub && !private {
						if _, seen := c.t.assigned[v]; !seen {
							c.t.assigned[v] = c.pos(x.Pos()) // path stability: a field inside a lock prefix must not change once shared
						}
					}
					if false {
						c.t.assigned[v] = c.pos(x.Pos()) // path stability: a field inside a lock prefix must not change once shared
					}
					if lab, pub := c.t.pubFields[v]; pub {
						if rr, pok := c.pathOf(x.X); pok {
							root, _ := rr.Root.(types.Object)
							if !(len(rr.Path) == 0 && root != nil && c.t.stillPrivate(c.fi, root, x.Pos())) {
								xs = append(xs, c.wr(rr, lab, x.Pos()))
							}
						} else {
							c.t.fail(x.Pos(), "field %s of a publish-once object is written through an expression that is not a variable/field path", v.Name())
						}
					}
				}
			}
			xs = append(xs, c.expr(x.X))
		case *ast.IndexExpr:
			if ref, label, idx, _, ok := c.baseGuarded(x); ok {
				if r != nil {
					if r2, l2, isRef := c.directRef(r); isRef && !(l2 == label && sameRef(r2, ref)) {
						c.t.fail(r.Pos(), "guarded data %s is stored into %s (aliasing)", l2, label)
					}
				}
				xs = append(xs, idx, c.wr(ref, label, x.Pos()))
				continue
			}
			if r != nil {
				c.escapes(r, "is stored in a map or slice")
			}
			xs = append(xs, c.expr(x.X), c.expr(x.Index))
		case *ast.StarExpr:
			c.wholeStruct(x, "overwritten")
			if r != nil {
				c.escapes(r, "is stored through a pointer")
			}
			xs = append(xs, c.expr(x.X))
		default:
			c.t.fail(l.Pos(), "assignment target %T not understood", l)
		}
	}
	return seq(xs...)
}

// *p where p points to a struct of the guard table: all its guarded fields (and its mutex) at once
func (c *fnCtx) wholeStruct(x *ast.StarExpr, how string) {
	tp := c.pkg.Info.TypeOf(x)
	if n, ok := tp.(*types.Named); ok {
		if gs := c.t.specOf[n.Obj()]; gs != nil {
			if r, pok := c.pathOf(x.X); pok && c.isFresh(r) {
				return
			}
			c.t.fail(x.Pos(), "a whole %s is %s through a pointer: its guarded fields and its mutex would be accessed at once", gs.Type, how)
		}
	}
}

func (c *fnCtx) isFresh(r Ref) bool {
	o, ok := r.Root.(types.Object)
	return ok && c.fresh[o]
}

func sameRef(a, b Ref) bool {
	if a.Root != b.Root || len(a.Path) != len(b.Path) {
		return false
	}
	for i := range a.Path {
		if a.Path[i] != b.Path[i] {
			return false
		}
	}
	return true
}

func isFreshValue(e ast.Expr) bool {
	e = stripParens(e)
	if u, ok := e.(*ast.UnaryExpr); ok && u.Op == token.AND {
		e = stripParens(u.X)
	}
	if _, ok := e.(*ast.CompositeLit); ok {
		return true
	}
	if call, ok := e.(*ast.CallExpr); ok {
		if id, ok := call.Fun.(*ast.Ident); ok && id.Name == "new" {
			return true
		}
	}
	return false
}

// ---------------------------------------------------------------------------------------------
// entries and naming

func (t *Trans) translateAll() {
	for _, fi := range t.order {
		if fi.isHelper() && !(fi.directCalls == 0 && fi.Recv != "") {
			// still translated (so that anything it contains fails closed), but inlined at its call sites only
			t.inlineBody(fi, fi.Decl.Pos())
			if fi.directCalls == 0 {
				t.notes = append(t.notes, "unreachable function (unexported, never referred to in the translated packages): "+fi.Name)
			}
			continue
		}
		// (an unexported METHOD nobody calls directly may still be reached through an interface: kept as an entry)
		c := t.newCtx(fi, false)
		s := c.body(fi.Decl.Body)
		c.finish(s)
		kind := "func"
		if fi.Recv != "" {
			kind = "method"
		}
		e := &Entry{Name: fi.Name, Kind: kind, Pos: t.fset.Position(fi.Decl.Pos()), Body: s, fi: fi}
		if fi.Exported && fi.Recv != "" {
			for tn, gs := range t.specOf {
				if tn.Pkg() == fi.Pkg.Types && tn.Name() == fi.Recv && gs.Mutex == "Mutex" {
					e.Store = true
				}
			}
		}
		t.entries = append(t.entries, e)
	}
	// path stability: a field that is part of a lock prefix must never be re-assigned through a selector
	for v, p := range t.pathFlds {
		if a, ok := t.assigned[v]; ok {
			t.errs = append(t.errs, a.String()+": field "+v.Name()+" is part of a lock/guarded-field prefix (first at "+p.String()+") and is re-assigned: lock identity would not be stable")
		}
	}
	// functions that invoke a callback parameter: as a body of their own they are checked with the callback left out
	// (their own accesses); what the callback does under their locks is checked at every call site, where it is
	// resolved. That is only complete if every call site is in the translated packages.
	for _, e := range t.entries {
		if !e.Body.hasCallParam() {
			continue
		}
		if e.Body.hasLockOp() {
			switch {
			case e.fi == nil:
				t.errs = append(t.errs, fmt.Sprintf("%s: function literal %s invokes a callback parameter of the enclosing function and takes locks: not supported", e.Pos, e.Name))
			case e.fi.valueUses > 0 || e.fi.goTarget:
				t.errs = append(t.errs, fmt.Sprintf("%s: %s invokes a callback parameter while it may hold a lock and is itself used as a function value or started as a goroutine: the callback cannot be resolved", e.Pos, e.Name))
			default:
				t.cbUnderLock = append(t.cbUnderLock, e.fi)
				t.notes = append(t.notes, fmt.Sprintf("%s invokes a callback parameter and takes locks: the callback is resolved and checked at its %d call site(s)", e.Name, e.fi.directCalls))
			}
		}
		e.Body = e.Body.subst(func(r Ref) Ref { return r }, func(*Stmt) *Stmt { return skip() })
	}
	for _, e := range t.entries {
		renderNames(e.Body)
	}
	// request handlers of the access API: all-or-nothing effects
	for _, e := range t.entries {
		if e.Kind == "callback-literal" && strings.HasPrefix(e.Name, "access.") {
			if why := allOrNothing(e.Body); why != "" {
				e.Body = seq(&Stmt{K: KWr, Ref: Ref{Name: e.Name}, Label: "handler effects (not all-or-nothing): " + why, Pos: e.Pos}, e.Body)
			}
		}
	}
	for _, e := range t.entries {
		e.Body = e.Body.stripMarks()
	}
}

func rootName(r interface{}) string {
	switch x := r.(type) {
	case types.Object:
		return x.Name()
	case qroot:
		return x.obj.Name() + "@" + x.via
	}
	return "?"
}

// distinct variables with the same name get distinct rendered names (shadowing)
func renderNames(s *Stmt) {
	names := map[interface{}]string{}
	used := map[string]int{}
	s.walk(func(x *Stmt) {
		switch x.K {
		case KAcq, KRel, KRd, KWr:
			if x.Ref.Root == nil {
				return
			}
			if _, ok := names[x.Ref.Root]; !ok {
				n := rootName(x.Ref.Root)
				used[n]++
				if used[n] > 1 {
					n = n + "#" + itoa(used[n])
				}
				names[x.Ref.Root] = n
			}
		}
	})
	s.walk(func(x *Stmt) {
		switch x.K {
		case KAcq, KRel, KRd, KWr:
			if x.Ref.Root != nil {
				x.Ref.Name = names[x.Ref.Root]
			}
		}
	})
}

var _ = strings.Join
