package main

import (
	"fmt"
	"go/ast"
	"go/token"
	"go/types"
	"strings"
)

// One synchronised writer per websocket connection.
//
// gorilla/websocket allows ONE concurrent writer per connection (a second one makes it panic "concurrent write to
// websocket connection", which kills the process); only WriteControl may be called from other goroutines. The
// discipline in the relay: all WriteMessage / NextWriter / WriteJSON / WritePreparedMessage calls on a connection
// are made by the one goroutine that owns writing (writePump); the handlers installed with SetPingHandler /
// SetPongHandler / SetCloseHandler run in the goroutine that READS the connection and may only use WriteControl.
// A write call anywhere else - or one the translator cannot attribute - is emitted as a write to a field that no
// mutex guards ("websocket connection (second writer) ..."), which the well_locked obligation rejects.

var connWriteMethods = map[string]bool{"WriteMessage": true, "NextWriter": true, "WriteJSON": true, "WritePreparedMessage": true}
var connHandlerSetters = map[string]bool{"SetPingHandler": true, "SetPongHandler": true, "SetCloseHandler": true}

type connSite struct {
	pos       token.Pos
	field     *types.Var
	decl      *FuncInfo
	depth     int // enclosing function literals
	inHandler bool
	method    string
	recv      string
}

func isConnType(e ast.Expr) bool {
	if s, ok := e.(*ast.StarExpr); ok {
		e = s.X
	}
	se, ok := e.(*ast.SelectorExpr)
	if !ok {
		return false
	}
	id, ok := se.X.(*ast.Ident)
	return ok && id.Name == "websocket" && se.Sel.Name == "Conn"
}

func (t *Trans) connPrepass() {
	t.connBad = map[token.Pos]string{}
	connFields := map[*types.Var]bool{}
	for _, p := range t.pkgs {
		for _, f := range p.Files {
			ast.Inspect(f, func(n ast.Node) bool {
				st, ok := n.(*ast.StructType)
				if !ok {
					return true
				}
				for _, fl := range st.Fields.List {
					if isConnType(fl.Type) {
						for _, nm := range fl.Names {
							if v, ok := p.Info.Defs[nm].(*types.Var); ok {
								connFields[v] = true
							}
						}
					}
				}
				return true
			})
		}
	}
	var sites []connSite
	for _, fi := range t.order {
		info := fi.Pkg.Info
		var lits []*ast.FuncLit
		handlers := map[*ast.FuncLit]bool{}
		var stack []ast.Node
		ast.Inspect(fi.Decl.Body, func(n ast.Node) bool {
			if n == nil {
				top := stack[len(stack)-1]
				stack = stack[:len(stack)-1]
				if l, ok := top.(*ast.FuncLit); ok && len(lits) > 0 && lits[len(lits)-1] == l {
					lits = lits[:len(lits)-1]
				}
				return true
			}
			stack = append(stack, n)
			switch x := n.(type) {
			case *ast.FuncLit:
				lits = append(lits, x)
			case *ast.CallExpr:
				se, ok := stripParens(x.Fun).(*ast.SelectorExpr)
				if !ok {
					return true
				}
				if connHandlerSetters[se.Sel.Name] {
					for _, a := range x.Args {
						if l, ok := stripParens(a).(*ast.FuncLit); ok {
							handlers[l] = true
						}
					}
				}
				if !connWriteMethods[se.Sel.Name] {
					return true
				}
				if fn, ok := info.Uses[se.Sel].(*types.Func); ok && t.funcs[fn] != nil {
					return true // a method of the translated packages that happens to have this name
				}
				s := connSite{pos: x.Pos(), decl: fi, depth: len(lits), method: se.Sel.Name, recv: exprText(se.X)}
				if inner, ok := stripParens(se.X).(*ast.SelectorExpr); ok {
					if sel := info.Selections[inner]; sel != nil {
						if v, ok := sel.Obj().(*types.Var); ok && connFields[v] {
							s.field = v
						}
					}
				}
				for _, l := range lits {
					if handlers[l] {
						s.inHandler = true
					}
				}
				sites = append(sites, s)
			}
			return true
		})
	}
	// the owner of writing, per connection field: the one goroutine body that writes outside any literal
	owners := map[*types.Var][]*FuncInfo{}
	for _, s := range sites {
		if s.field != nil && s.depth == 0 {
			dup := false
			for _, o := range owners[s.field] {
				if o == s.decl {
					dup = true
				}
			}
			if !dup {
				owners[s.field] = append(owners[s.field], s.decl)
			}
		}
	}
	// several functions write outside literals: the owner is the one started as a goroutine, if there is exactly one
	for f, os := range owners {
		var gos []*FuncInfo
		for _, o := range os {
			if o.goTarget {
				gos = append(gos, o)
			}
		}
		if len(os) > 1 && len(gos) == 1 {
			owners[f] = gos
		}
	}
	for _, s := range sites {
		var why string
		switch {
		case s.inHandler:
			why = "inside a handler installed with SetPingHandler/SetPongHandler/SetCloseHandler, which runs in the goroutine that READS the connection while the writer goroutine may be in the middle of a frame; only WriteControl may be used there"
		case s.field == nil:
			why = "on a connection that is not a field of a shared struct: the translator cannot tell which goroutine owns writing to it"
		case s.depth > 0:
			why = "inside a function literal (another goroutine or a callback), not in the goroutine that owns writing"
		case len(owners[s.field]) != 1:
			var ns []string
			for _, o := range owners[s.field] {
				ns = append(ns, o.Name)
			}
			why = "more than one function writes to this connection: " + strings.Join(ns, ", ")
		case owners[s.field][0] != s.decl:
			why = "outside " + owners[s.field][0].Name + ", the goroutine that owns writing to this connection"
		case !owners[s.field][0].goTarget:
			why = owners[s.field][0].Name + " writes to the connection but is not started as the connection's writer goroutine"
		}
		if why != "" {
			t.connBad[s.pos] = fmt.Sprintf("%s.%s(...) %s", s.recv, s.method, why)
		}
	}
}

// ---------------------------------------------------------------------------------------------
// Request handlers are all-or-nothing in their effects.
//
// A handler of the access API that has changed a store must go on to perform the same further effects (critical
// sections on stores, channel operations) on every path to its return: a path that returns early AFTER the first
// store write - e.g. because the caller has gone away - leaves a state that no one-at-a-time order of complete
// requests produces (booking deny-listed but the crossbar never told to close its connections).

type hitem struct {
	sect  bool
	name  string
	wrote bool
}

type hmark struct {
	sel, arm, at int
	wrote        bool // a store had been written before this select
}

type hstate struct {
	seq   []hitem
	marks []hmark
	in    string // lock of the section being executed, "" outside
	wrote bool
	done  bool
}

func (st hstate) with(it hitem) hstate {
	n := st
	n.seq = append(append([]hitem{}, st.seq...), it)
	return n
}

const maxHandlerPaths = 4096

func handlerPaths(s *Stmt, in []hstate, overflow *bool) []hstate {
	if *overflow {
		return in
	}
	var out []hstate
	switch s.K {
	case KSeq:
		return handlerPaths(s.B, handlerPaths(s.A, in, overflow), overflow)
	case KChoice:
		out = append(handlerPaths(s.A, in, overflow), handlerPaths(s.B, in, overflow)...)
	case KLoop:
		out = append(append([]hstate{}, in...), handlerPaths(s.A, in, overflow)...) // zero or one iteration
	default:
		for _, st := range in {
			if st.done {
				out = append(out, st)
				continue
			}
			switch s.K {
			case KAcq:
				if st.in == "" {
					st.in, st.wrote = s.Ref.Text()+":"+s.Label, false
				}
			case KRel:
				if st.in == s.Ref.Text()+":"+s.Label {
					st = st.with(hitem{sect: true, name: st.in, wrote: st.wrote})
					st.in, st.wrote = "", false
				}
			case KWr:
				if st.in != "" {
					st.wrote = true
				}
			case KMark:
				if s.Sel > 0 {
					w := st.wrote
					for _, it := range st.seq {
						w = w || (it.sect && it.wrote)
					}
					st.marks = append(append([]hmark{}, st.marks...), hmark{s.Sel, s.Arm, len(st.seq), w})
				} else if st.in == "" {
					st = st.with(hitem{name: s.Label})
				}
			case KReturn:
				st.done = true
			}
			out = append(out, st)
		}
	}
	if len(out) > maxHandlerPaths {
		*overflow = true
	}
	return out
}

// allOrNothing: once a handler has written to a store, which further effects it performs (critical sections on
// stores, sends on channels) must not depend on which alternative of a select wins. "" if so; otherwise why not.
// (Branches on data after a write are not judged: the IR does not know the conditions.)
func allOrNothing(body *Stmt) string {
	overflow := false
	paths := handlerPaths(body, []hstate{{}}, &overflow)
	if overflow {
		return "too many paths to compare (more than 4096): the translator cannot establish that the handler's effects are all-or-nothing"
	}
	render := func(its []hitem) string {
		var xs []string
		for _, it := range its {
			if it.sect {
				xs = append(xs, "section on "+it.name)
			} else {
				xs = append(xs, it.name)
			}
		}
		if len(xs) == 0 {
			return "nothing more"
		}
		return strings.Join(xs, "; ")
	}
	// per select and history before it: the set of effect suffixes of each arm
	type key struct {
		sel  int
		hist string
	}
	sets := map[key]map[int]map[string]bool{}
	for _, p := range paths {
		for _, mk := range p.marks {
			if !mk.wrote {
				continue
			}
			k := key{mk.sel, render(p.seq[:mk.at])}
			if sets[k] == nil {
				sets[k] = map[int]map[string]bool{}
			}
			if sets[k][mk.arm] == nil {
				sets[k][mk.arm] = map[string]bool{}
			}
			sets[k][mk.arm][render(p.seq[mk.at:])] = true
		}
	}
	for k, arms := range sets {
		var first map[string]bool
		firstArm := 0
		for a := 1; a < 64; a++ {
			s, ok := arms[a]
			if !ok {
				continue
			}
			if first == nil {
				first, firstArm = s, a
				continue
			}
			for x := range first {
				if !s[x] {
					return fmt.Sprintf("after the handler has written to a store (effects so far: %s) a select decides what else it does: alternative %d goes on to [%s], which alternative %d does not - a request on the other alternative leaves a state that no sequence of complete requests produces", k.hist, firstArm, x, a)
				}
			}
			for x := range s {
				if !first[x] {
					return fmt.Sprintf("after the handler has written to a store (effects so far: %s) a select decides what else it does: alternative %d goes on to [%s], which alternative %d does not - a request on the other alternative leaves a state that no sequence of complete requests produces", k.hist, a, x, firstArm)
				}
			}
		}
	}
	return ""
}
