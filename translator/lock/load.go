package main

import (
	"fmt"
	"go/ast"
	"go/parser"
	"go/token"
	"go/types"
	"os"
	"path/filepath"
	"regexp"
	"sort"
	"strings"
)

// GuardSpec is one line of the guard table (the specification of C12): a struct type, its mutex and
// the fields that mutex protects. Labels must agree with guard_table in coq/Model/LockIR.v.
type GuardSpec struct {
	PkgDir    string
	Type      string
	Mutex     string // field name of the mutex; "Mutex" when embedded
	LockLabel string
	Fields    map[string]string // field name -> label
	Rank      int
}

var guardSpecs = []*GuardSpec{
	{PkgDir: "internal/ttlcode", Type: "CodeStore", Mutex: "Mutex", LockLabel: "CodeStore.Mutex", Rank: 1,
		Fields: map[string]string{"store": "CodeStore.store"}},
	{PkgDir: "internal/deny", Type: "Store", Mutex: "Mutex", LockLabel: "deny.Store.Mutex", Rank: 1,
		Fields: map[string]string{"AllowList": "deny.Store.AllowList", "DenyList": "deny.Store.DenyList"}},
	{PkgDir: "internal/chanmap", Type: "Store", Mutex: "Mutex", LockLabel: "chanmap.Store.Mutex", Rank: 1,
		Fields: map[string]string{"ChildrenByParent": "chanmap.Store.ChildrenByParent", "ParentByChild": "chanmap.Store.ParentByChild"}},
	{PkgDir: "internal/crossbar", Type: "Hub", Mutex: "mu", LockLabel: "Hub.mu", Rank: 1,
		Fields: map[string]string{"clients": "Hub.clients"}},
	{PkgDir: "internal/crossbar", Type: "Frames", Mutex: "mu", LockLabel: "Frames.mu", Rank: 2,
		Fields: map[string]string{"last": "Frames.last", "size": "Frames.size", "ns": "Frames.ns"}},
}

// Publish-once structs: a *Client is built by one goroutine and then handed to the hub (register channel); the
// hub's readers (GetStats, statsReporter) read its fields under Hub.mu only. The discipline: fields are assigned
// only while the object is still private to the function that created it - never after it has been sent,
// passed on, stored or captured. A later write is emitted as a write to a field nothing guards (rejected).
var publishOnce = []struct{ PkgDir, Type string }{
	{"internal/crossbar", "Client"},
}

// packages translated, in dependency order
var targetDirs = []string{"internal/ttlcode", "internal/deny", "internal/chanmap", "internal/crossbar", "internal/access", "internal/relay"}

func guardMap() (map[string]string, map[string]int) {
	g, r := map[string]string{}, map[string]int{}
	for _, s := range guardSpecs {
		r[s.LockLabel] = s.Rank
		for _, l := range s.Fields {
			g[l] = s.LockLabel
		}
	}
	return g, r
}

type Pkg struct {
	Dir   string // relative to the repo
	Path  string // import path
	Files []*ast.File
	Types *types.Package
	Info  *types.Info
}

type Loader struct {
	repo    string
	module  string
	fset    *token.FileSet
	overlay map[string]string // absolute file -> replacement file
	pkgs    map[string]*Pkg   // by import path
	fake    map[string]*types.Package
	typeErr int
	mem     map[string][]byte // in-memory repository (self-test): relative path -> source
}

var versionElem = regexp.MustCompile(`^v[0-9]+$`)

func (l *Loader) Import(path string) (*types.Package, error) {
	if p, ok := l.pkgs[path]; ok && p.Types != nil {
		return p.Types, nil
	}
	if p, ok := l.fake[path]; ok {
		return p, nil
	}
	// every other import is opaque: an empty, complete package. Uses of its members have unknown type;
	// the translator only needs the types of the relay's own structs, fields and local variables.
	parts := strings.Split(path, "/")
	name := parts[len(parts)-1]
	if versionElem.MatchString(name) && len(parts) > 1 {
		name = parts[len(parts)-2]
	}
	name = strings.TrimPrefix(name, "go-")
	p := types.NewPackage(path, name)
	p.MarkComplete()
	l.fake[path] = p
	return p, nil
}

func (l *Loader) readFile(abs string) ([]byte, error) {
	if r, ok := l.overlay[abs]; ok {
		return os.ReadFile(r)
	}
	return os.ReadFile(abs)
}

func (l *Loader) parseDir(rel string) ([]*ast.File, error) {
	if l.mem != nil {
		var names []string
		for n := range l.mem {
			if filepath.ToSlash(filepath.Dir(n)) == rel {
				names = append(names, n)
			}
		}
		sort.Strings(names)
		var files []*ast.File
		for _, n := range names {
			f, err := parser.ParseFile(l.fset, n, l.mem[n], parser.ParseComments|parser.SkipObjectResolution)
			if err != nil {
				return nil, err
			}
			files = append(files, f)
		}
		return files, nil
	}
	dir := filepath.Join(l.repo, rel)
	ents, err := os.ReadDir(dir)
	if err != nil {
		return nil, err
	}
	var files []*ast.File
	var names []string
	for _, e := range ents {
		n := e.Name()
		if e.IsDir() || !strings.HasSuffix(n, ".go") || strings.HasSuffix(n, "_test.go") {
			continue
		}
		names = append(names, n)
	}
	sort.Strings(names)
	for _, n := range names {
		abs := filepath.Join(dir, n)
		src, err := l.readFile(abs)
		if err != nil {
			return nil, err
		}
		f, err := parser.ParseFile(l.fset, filepath.ToSlash(filepath.Join(rel, n)), src, parser.ParseComments|parser.SkipObjectResolution)
		if err != nil {
			return nil, fmt.Errorf("parse %s: %v", abs, err)
		}
		if hasIgnoreTag(f) {
			continue
		}
		files = append(files, f)
	}
	return files, nil
}

// files excluded from every build by "//go:build ignore" are not part of the program
func hasIgnoreTag(f *ast.File) bool {
	for _, cg := range f.Comments {
		if cg.Pos() > f.Package {
			break
		}
		for _, c := range cg.List {
			t := strings.TrimSpace(strings.TrimPrefix(c.Text, "//"))
			if strings.HasPrefix(t, "go:build ignore") || strings.HasPrefix(t, "+build ignore") {
				return true
			}
		}
	}
	return false
}

func readModulePath(repo string) (string, error) {
	b, err := os.ReadFile(filepath.Join(repo, "go.mod"))
	if err != nil {
		return "", err
	}
	for _, ln := range strings.Split(string(b), "\n") {
		ln = strings.TrimSpace(ln)
		if strings.HasPrefix(ln, "module ") {
			return strings.TrimSpace(strings.TrimPrefix(ln, "module ")), nil
		}
	}
	return "", fmt.Errorf("no module line in go.mod")
}

func (l *Loader) loadTargets(dirs []string) ([]*Pkg, error) {
	var out []*Pkg
	for _, d := range dirs {
		files, err := l.parseDir(d)
		if err != nil {
			return nil, err
		}
		if len(files) == 0 {
			return nil, fmt.Errorf("no Go files in %s", d)
		}
		p := &Pkg{Dir: d, Path: l.module + "/" + d, Files: files}
		p.Info = &types.Info{
			Types:      map[ast.Expr]types.TypeAndValue{},
			Defs:       map[*ast.Ident]types.Object{},
			Uses:       map[*ast.Ident]types.Object{},
			Selections: map[*ast.SelectorExpr]*types.Selection{},
			Implicits:  map[ast.Node]types.Object{},
			Scopes:     map[ast.Node]*types.Scope{},
		}
		conf := types.Config{Importer: l, Error: func(error) { l.typeErr++ }, DisableUnusedImportCheck: true}
		tp, _ := conf.Check(p.Path, l.fset, files, p.Info) // errors about opaque imports are expected
		if tp == nil {
			return nil, fmt.Errorf("type checker produced nothing for %s", d)
		}
		p.Types = tp
		l.pkgs[p.Path] = p
		out = append(out, p)
	}
	return out, nil
}

// every other non-test file of the module, parsed only (for the syntactic "field touched elsewhere" scan)
func (l *Loader) otherFiles(skip map[string]bool) ([]*ast.File, error) {
	var out []*ast.File
	err := filepath.Walk(l.repo, func(p string, fi os.FileInfo, err error) error {
		if err != nil {
			return err
		}
		rel, _ := filepath.Rel(l.repo, p)
		rel = filepath.ToSlash(rel)
		if fi.IsDir() {
			b := filepath.Base(p)
			if p != l.repo && (strings.HasPrefix(b, ".") || strings.HasPrefix(b, "_") || b == "vendor" || b == "testdata" || b == "node_modules") {
				return filepath.SkipDir
			}
			if skip[rel] {
				return filepath.SkipDir
			}
			if p != l.repo {
				if _, e := os.Stat(filepath.Join(p, "go.mod")); e == nil {
					return filepath.SkipDir // nested module
				}
			}
			return nil
		}
		if !strings.HasSuffix(p, ".go") || strings.HasSuffix(p, "_test.go") {
			return nil
		}
		src, err := l.readFile(p)
		if err != nil {
			return err
		}
		f, err := parser.ParseFile(l.fset, rel, src, parser.SkipObjectResolution)
		if err != nil {
			return nil // not our concern: the build breaks elsewhere
		}
		out = append(out, f)
		return nil
	})
	return out, err
}
