package main

import (
	"fmt"
	"sort"
	"strings"
)

// Self-test corpus: small Go files with known verdicts. The corpus mimics the shape of the four store
// packages (same type and field names, so the guard table applies unchanged). Every function is translated,
// judged by the diagnostic checker here, and the same expectation is emitted as a Coq Example
// (LockSelftest.v) so that Coq's checker is tested on the same bodies on every run.

const stTtlcode = `package ttlcode
import (
	"sort"
	"sync"
)
var _ = sort.Ints
type CodeStore struct {
	sync.Mutex
	store map[string]int
	ttl int64
}
func (c *CodeStore) Locked(k string) { c.Lock(); c.store[k] = 1; c.Unlock() }
func (c *CodeStore) UnlockedRead() int { return len(c.store) }
func (c *CodeStore) UnlockedWrite(k string) { delete(c.store, k) }
func (c *CodeStore) DeferUnlock(k string, x bool) int {
	c.Lock()
	defer c.Unlock()
	if x { return 0 }
	v := c.store[k]
	return v
}
func (c *CodeStore) ReturnReadsUnderDefer(k string) int { c.Lock(); defer c.Unlock(); return c.store[k] }
func (c *CodeStore) EarlyReturnNoUnlock(x bool) { c.Lock(); if x { return }; c.Unlock() }
func (c *CodeStore) DoubleAcquire() { c.Lock(); c.Lock(); c.Unlock(); c.Unlock() }
func (c *CodeStore) UnlockThenRead(k string) int { c.Lock(); c.Unlock(); return c.store[k] }
func (c *CodeStore) ConditionalUnlock(x bool) { c.Lock(); if x { c.Unlock() } }
func (c *CodeStore) GoroutineLiteral() {
	c.Lock()
	go func() { c.store["x"] = 1 }()
	c.Unlock()
}
func (c *CodeStore) GoroutineLiteralLocked() {
	go func() { c.Lock(); c.store["x"] = 1; c.Unlock() }()
}
func (c *CodeStore) BreakHoldingLock(x bool) {
	for { c.Lock(); if x { break }; c.Unlock() }
}
func (c *CodeStore) BreakAfterUnlock(x bool) {
	for { c.Lock(); if x { c.Unlock(); break }; c.store["a"]++; c.Unlock() }
}
func (c *CodeStore) ContinueHoldingLock(n int) {
	for i := 0; i < n; i++ { c.Lock(); if i == 3 { continue }; c.Unlock() }
}
func (c *CodeStore) RangeDelete() {
	c.Lock()
	defer c.Unlock()
	var old []string
	for k, v := range c.store { if v == 0 { old = append(old, k) } }
	for _, k := range old { delete(c.store, k) }
}
func (c *CodeStore) RangeUnlocked() int { n := 0; for range c.store { n++ }; return n }
func (c *CodeStore) Inner() { c.Lock(); c.store["i"] = 1; c.Unlock() }
func (c *CodeStore) OuterCallsInnerLocked() { c.Lock(); c.Inner(); c.Unlock() }
func (c *CodeStore) OuterCallsInner() { c.Inner(); c.Inner() }
func (c *CodeStore) SwitchReturns(k int) int {
	c.Lock()
	switch k {
	case 0:
		c.Unlock()
		return 0
	case 1:
		v := c.store["a"]
		c.Unlock()
		return v
	}
	c.Unlock()
	return -1
}
func (c *CodeStore) SwitchForgetsUnlock(k int) int {
	c.Lock()
	switch k {
	case 0:
		return 0
	}
	c.Unlock()
	return -1
}
func (c *CodeStore) DeferredClosureUnlocks() {
	c.Lock()
	defer func() { c.Unlock() }()
	c.store["a"] = 2
}
func NewStore() *CodeStore { c := &CodeStore{}; c.store = map[string]int{}; return c }
func (c *CodeStore) SubmitIf(k string, cond func() bool) string {
	c.Lock()
	defer c.Unlock()
	if !cond() { return "" }
	c.store[k] = 1
	return k
}
func (c *CodeStore) PassesCallbackOn(f func() bool) string { return c.SubmitIf("a", f) }
func each(f func()) { f() }
func (c *CodeStore) ResolvedCallbackUnderLock() { c.Lock(); each(func() { c.store["a"] = 1 }); c.Unlock() }
func (c *CodeStore) ResolvedCallbackNoLock() { each(func() { c.store["a"] = 1 }) }
`

const stDeny = `package deny
import "sync"
type Store struct {
	sync.Mutex
	AllowList map[string]int64
	DenyList map[string]int64
}
func (s *Store) Prune() { s.Lock(); defer s.Unlock(); s.prune() }
func (s *Store) prune() { for k := range s.DenyList { delete(s.AllowList, k) } }
func (s *Store) BadPrune() { s.prune2() }
func (s *Store) prune2() { delete(s.DenyList, "x") }
func (s *Store) WrongInstance(o *Store) { s.Lock(); o.DenyList["a"] = 1; s.Unlock() }
func (s *Store) Check(id string) bool { s.Lock(); defer s.Unlock(); _, ok := s.DenyList[id]; return !ok }
func (s *Store) DenyThen(id string, then func()) { s.Lock(); s.DenyList[id] = 1; then(); s.Unlock() }
func (s *Store) CallbackUnlocked(then func()) { s.Lock(); s.DenyList["a"] = 1; s.Unlock(); then() }
`

const stAccess = `package access
import (
	"example.org/selftest/internal/deny"
	"example.org/selftest/internal/ttlcode"
)
type Config struct { CodeStore *ttlcode.CodeStore; DenyStore *deny.Store }
func sessionNested(config Config) func(string) string {
	return func(bid string) string {
		return config.CodeStore.SubmitIf(bid, func() bool { return config.DenyStore.Check(bid) })
	}
}
func denyNested(config Config) func(string) {
	return func(bid string) { config.DenyStore.DenyThen(bid, func() { config.CodeStore.Locked(bid) }) }
}
func methodValueNested(config Config) func() {
	return func() { config.DenyStore.DenyThen("a", config.CodeStore.Inner) }
}
func sequential(config Config) func(string) {
	return func(bid string) { if config.DenyStore.Check(bid) { config.CodeStore.Locked(bid) } }
}
func harmlessCallback(config Config) func() {
	return func() { n := 0; config.DenyStore.DenyThen("a", func() { n++ }) }
}
func callbackAfterUnlock(config Config) func() {
	return func() { config.DenyStore.CallbackUnlocked(func() { config.CodeStore.Locked("a") }) }
}
func completeHandler(config Config, notify chan string) func(string) int {
	return func(bid string) int {
		if bid == "" { return 400 }
		config.DenyStore.DenyThen(bid, func() {})
		config.CodeStore.Locked(bid)
		notify <- bid
		return 204
	}
}
func abandonableHandler(config Config, notify chan string, gone chan struct{}) func(string) int {
	return func(bid string) int {
		config.DenyStore.DenyThen(bid, func() {})
		select {
		case notify <- bid:
		case <-gone:
			return 400
		}
		return 204
	}
}
func API(config Config) []interface{} {
	return []interface{}{sessionNested(config), denyNested(config), methodValueNested(config), sequential(config), harmlessCallback(config), callbackAfterUnlock(config),
		completeHandler(config, nil), abandonableHandler(config, nil, nil)}
}
`

const stRelay = `package relay
import "example.org/selftest/internal/deny"
func Run(ds *deny.Store) { go func() { for { ds.Prune() } }() }
`

const stChanmap = `package chanmap
import "sync"
type Store struct {
	*sync.Mutex
	ChildrenByParent map[string]map[string]chan struct{}
	ParentByChild map[string]string
}
func (s *Store) AliasLocked(k string) {
	s.Lock()
	defer s.Unlock()
	p := s.ChildrenByParent[k]
	p["a"] = nil
	s.ChildrenByParent[k] = p
}
func (s *Store) AliasUsedAfterUnlock(k string) {
	s.Lock()
	p := s.ChildrenByParent[k]
	s.Unlock()
	p["a"] = nil
}
func (s *Store) CloseChildren(k string) {
	s.Lock()
	defer s.Unlock()
	if children, ok := s.ChildrenByParent[k]; ok {
		for _, ch := range children { close(ch) }
		delete(s.ChildrenByParent, k)
	}
}
`

const stCrossbar = `package crossbar
import (
	"encoding/json"
	"sync"
	"time"
	"github.com/eclesh/welford"
	"github.com/gorilla/websocket"
	"example.org/selftest/internal/chanmap"
)
type Frames struct { last time.Time; size *welford.Stats; ns *welford.Stats; mu *sync.RWMutex }
type Stats struct { tx, rx *Frames }
type Client struct { hub *Hub; send chan int; stats *Stats; topic string; buf []byte; conn *websocket.Conn }
type message struct { mt int; data []byte }
type Hub struct { clients map[string]map[*Client]bool; dcs *chanmap.Store; mu *sync.RWMutex; unregister chan *Client; broadcast chan message }

func (h *Hub) RLockRead(t string) int { h.mu.RLock(); n := len(h.clients[t]); h.mu.RUnlock(); return n }
func (h *Hub) RLockThenWrite(t string) { h.mu.RLock(); h.clients[t] = nil; h.mu.RUnlock() }
func (h *Hub) InnerMapWrite(c *Client) { h.mu.Lock(); h.clients[c.topic][c] = true; h.mu.Unlock() }
func (h *Hub) InnerMapWriteShared(c *Client) { h.mu.RLock(); delete(h.clients[c.topic], c); h.mu.RUnlock() }
func (h *Hub) SelectDefaultSend(t string) {
	h.mu.RLock()
	for client := range h.clients[t] {
		select {
		case client.send <- 1:
		default:
		}
	}
	h.mu.RUnlock()
}
func (h *Hub) BlockingSendWhileLocked(t string, c *Client) { h.mu.RLock(); h.unregister <- c; h.mu.RUnlock() }
func (h *Hub) BlockingSelectWhileLocked(c *Client, done chan struct{}) {
	h.mu.Lock()
	select {
	case h.unregister <- c:
	case <-done:
	}
	h.mu.Unlock()
}
func (h *Hub) BlockingSendUnlocked(c *Client) { h.unregister <- c }
func (h *Hub) NestedInOrder() int {
	n := 0
	h.mu.RLock()
	for _, topic := range h.clients {
		for client := range topic {
			client.stats.tx.mu.RLock()
			if client.stats.tx.size.Count() > 0 { n++ }
			_ = time.Since(client.stats.tx.last)
			client.stats.tx.mu.RUnlock()
		}
	}
	h.mu.RUnlock()
	return n
}
func (c *Client) NestedOutOfOrder() {
	c.stats.tx.mu.Lock()
	c.hub.mu.RLock()
	_ = len(c.hub.clients)
	c.hub.mu.RUnlock()
	c.stats.tx.mu.Unlock()
}
func (c *Client) TwoFramesNested() {
	c.stats.tx.mu.Lock()
	c.stats.rx.mu.Lock()
	c.stats.rx.last = c.stats.tx.last
	c.stats.rx.mu.Unlock()
	c.stats.tx.mu.Unlock()
}
func (c *Client) MutatingMethodUnderRLock() { c.stats.tx.mu.RLock(); c.stats.tx.size.Add(1); c.stats.tx.mu.RUnlock() }
func (c *Client) MutatingMethodUnderLock() { c.stats.tx.mu.Lock(); c.stats.tx.ns.Add(1); c.stats.tx.last = time.Now(); c.stats.tx.mu.Unlock() }
func (c *Client) ReadMethodUnderRLock() float64 { c.stats.tx.mu.RLock(); defer c.stats.tx.mu.RUnlock(); return c.stats.tx.size.Mean() }
func (c *Client) WrongFrames() { c.stats.tx.mu.Lock(); c.stats.rx.last = time.Now(); c.stats.tx.mu.Unlock() }
func (c *Client) WrongClient(o *Client) { c.stats.tx.mu.Lock(); o.stats.tx.last = time.Now(); c.stats.tx.mu.Unlock() }
func (h *Hub) CrossPackageAfterUnlock(k string) { h.mu.Lock(); h.clients[k] = nil; h.mu.Unlock(); h.dcs.AliasLocked(k) }
func (h *Hub) CrossPackageWhileLocked(k string) { h.mu.Lock(); h.dcs.AliasLocked(k); h.mu.Unlock() }
func (h *Hub) run() {
	for {
		select {
		case c := <-h.unregister:
			h.drop(c)
		}
	}
}
func (h *Hub) drop(c *Client) {
	h.mu.Lock()
	if _, ok := h.clients[c.topic][c]; ok { delete(h.clients[c.topic], c); close(c.send) }
	h.mu.Unlock()
}
func Start(h *Hub) { go h.run() }
func newClient(h *Hub) *Client { c := &Client{hub: h}; c.topic = "t"; return c }
func newClientPublishing(h *Hub) *Client { c := &Client{hub: h}; h.unregister <- c; return c }
func BuildThenPublish(h *Hub) { c := newClient(h); c.stats = &Stats{}; h.unregister <- c }
func PublishThenWrite(h *Hub) { c := newClient(h); h.unregister <- c; c.stats = &Stats{} }
func WriteAfterPublishingConstructor(h *Hub) { c := newClientPublishing(h); c.topic = "x" }
func (c *Client) SetTopic(t string) { c.topic = t }
func PublishInLoop(h *Hub) { c := &Client{}; for i := 0; i < 2; i++ { c.topic = "a"; h.unregister <- c } }
func CapturedThenWritten(h *Hub) { c := &Client{}; go func() { _ = c.topic }(); c.topic = "x" }
func (c *Client) PumpFresh(n int) { data := make([]byte, n); c.hub.broadcast <- message{data: data} }
func (c *Client) PumpMarshal(v interface{}) { b, _ := json.Marshal(v); c.hub.broadcast <- message{mt: 1, data: b} }
func (h *Hub) Forward(out chan message) { m := <-h.broadcast; out <- m }
func (h *Hub) ForwardSelect(out chan message, done chan bool) {
	select {
	case m := <-h.broadcast:
		select {
		case out <- m:
		default:
		}
	case <-done:
	}
}
func freshBuf(n int) []byte { return append([]byte{}, make([]byte, n)...) }
func (c *Client) PumpFreshHelper() { c.hub.broadcast <- message{data: freshBuf(3)} }
func (c *Client) PumpScratch(scratch *[]byte) { buf := append((*scratch)[:0], 1, 2); *scratch = buf; c.hub.broadcast <- message{data: buf} }
func (c *Client) PumpField() { c.hub.broadcast <- message{data: c.buf} }
func (c *Client) PumpArgument(b []byte) { c.hub.broadcast <- message{data: b} }
func (c *Client) PumpWrittenAfter() { d := make([]byte, 4); c.hub.broadcast <- message{data: d}; d[0] = 1 }
func readInto(scratch *[]byte) []byte { buf := append((*scratch)[:0], 0); *scratch = buf; return buf }
func (c *Client) PumpReusingHelper() { var s []byte; for { d := readInto(&s); c.hub.broadcast <- message{data: d} } }
func (c *Client) PumpKeptInField() { d := make([]byte, 4); c.buf = d; c.hub.broadcast <- message{data: d} }
func (c *Client) connWriter() { for { _ = c.conn.WriteMessage(1, nil); w, _ := c.conn.NextWriter(2); _ = w } }
func (c *Client) ConnReaderPongsWithWriteControl() {
	c.conn.SetPingHandler(func(d string) error { return c.conn.WriteControl(10, []byte(d), time.Now()) })
	for { c.conn.ReadMessage() }
}
func (c *Client) ConnReaderPongsWithWriteMessage() {
	c.conn.SetPingHandler(func(d string) error { return c.conn.WriteMessage(10, []byte(d)) })
	for { c.conn.ReadMessage() }
}
func (c *Client) ConnSecondWriter() { _ = c.conn.WriteMessage(1, []byte("bye")) }
func StartConn(c *Client) { go c.connWriter() }
`

type stExpect struct{ wl, nb, lo bool }

// expected verdicts: well_locked, no_block_while_locked, lock_order_ok (the latter two imply the first)
var stWant = map[string]stExpect{
	"ttlcode.CodeStore.Locked":                          {true, true, true},
	"ttlcode.CodeStore.UnlockedRead":                    {false, false, false},
	"ttlcode.CodeStore.UnlockedWrite":                   {false, false, false},
	"ttlcode.CodeStore.DeferUnlock":                     {true, true, true},
	"ttlcode.CodeStore.ReturnReadsUnderDefer":           {true, true, true},
	"ttlcode.CodeStore.EarlyReturnNoUnlock":             {false, false, false},
	"ttlcode.CodeStore.DoubleAcquire":                   {false, false, false},
	"ttlcode.CodeStore.UnlockThenRead":                  {false, false, false},
	"ttlcode.CodeStore.ConditionalUnlock":               {false, false, false},
	"ttlcode.CodeStore.GoroutineLiteral":                {true, true, true},
	"ttlcode.CodeStore.GoroutineLiteral$1":              {false, false, false},
	"ttlcode.CodeStore.GoroutineLiteralLocked":          {true, true, true},
	"ttlcode.CodeStore.GoroutineLiteralLocked$1":        {true, true, true},
	"ttlcode.CodeStore.BreakHoldingLock":                {false, false, false},
	"ttlcode.CodeStore.BreakAfterUnlock":                {true, true, true},
	"ttlcode.CodeStore.ContinueHoldingLock":             {false, false, false},
	"ttlcode.CodeStore.RangeDelete":                     {true, true, true},
	"ttlcode.CodeStore.RangeUnlocked":                   {false, false, false},
	"ttlcode.CodeStore.Inner":                           {true, true, true},
	"ttlcode.CodeStore.OuterCallsInnerLocked":           {false, false, false},
	"ttlcode.CodeStore.OuterCallsInner":                 {true, true, true},
	"ttlcode.CodeStore.SwitchReturns":                   {true, true, true},
	"ttlcode.CodeStore.SwitchForgetsUnlock":             {false, false, false},
	"ttlcode.CodeStore.DeferredClosureUnlocks":          {true, true, true},
	"ttlcode.NewStore":                                  {true, true, true},
	"deny.Store.Prune":                                  {true, true, true},
	"deny.Store.BadPrune":                               {false, false, false},
	"deny.Store.WrongInstance":                          {false, false, false},
	"chanmap.Store.AliasLocked":                         {true, true, true},
	"chanmap.Store.AliasUsedAfterUnlock":                {false, false, false},
	"chanmap.Store.CloseChildren":                       {true, true, true},
	"crossbar.Hub.RLockRead":                            {true, true, true},
	"crossbar.Hub.RLockThenWrite":                       {false, false, false},
	"crossbar.Hub.InnerMapWrite":                        {true, true, true},
	"crossbar.Hub.InnerMapWriteShared":                  {false, false, false},
	"crossbar.Hub.SelectDefaultSend":                    {true, true, true},
	"crossbar.Hub.BlockingSendWhileLocked":              {true, false, true},
	"crossbar.Hub.BlockingSelectWhileLocked":            {true, false, true},
	"crossbar.Hub.BlockingSendUnlocked":                 {true, true, true},
	"crossbar.Hub.NestedInOrder":                        {true, true, true},
	"crossbar.Client.NestedOutOfOrder":                  {true, true, false},
	"crossbar.Client.TwoFramesNested":                   {true, true, false},
	"crossbar.Client.MutatingMethodUnderRLock":          {false, false, false},
	"crossbar.Client.MutatingMethodUnderLock":           {true, true, true},
	"crossbar.Client.ReadMethodUnderRLock":              {true, true, true},
	"crossbar.Client.WrongFrames":                       {false, false, false},
	"crossbar.Client.WrongClient":                       {false, false, false},
	"crossbar.Hub.CrossPackageAfterUnlock":              {true, true, true},
	"crossbar.Hub.CrossPackageWhileLocked":              {true, true, false},
	"crossbar.Hub.run":                                  {true, true, true},
	"crossbar.Start":                                    {true, true, true},
	"ttlcode.CodeStore.SubmitIf":                        {true, true, true},
	"ttlcode.CodeStore.PassesCallbackOn":                {true, true, true},
	"ttlcode.CodeStore.ResolvedCallbackUnderLock":       {true, true, true},
	"ttlcode.CodeStore.ResolvedCallbackNoLock":          {false, false, false},
	"deny.Store.Check":                                  {true, true, true},
	"deny.Store.DenyThen":                               {true, true, true},
	"deny.Store.CallbackUnlocked":                       {true, true, true},
	"access.API":                                        {true, true, true},
	"access.sessionNested$1":                            {true, true, false},
	"access.denyNested$1":                               {true, true, false},
	"access.methodValueNested$1":                        {true, true, false},
	"access.sequential$1":                               {true, true, true},
	"access.harmlessCallback$1":                         {true, true, true},
	"access.callbackAfterUnlock$1":                      {true, true, true},
	"relay.Run":                                         {true, true, true},
	"relay.Run$1":                                       {true, true, true},
	"crossbar.BuildThenPublish":                         {true, true, true},
	"crossbar.PublishThenWrite":                         {false, false, false},
	"crossbar.WriteAfterPublishingConstructor":          {false, false, false},
	"crossbar.Client.SetTopic":                          {false, false, false},
	"crossbar.PublishInLoop":                            {false, false, false},
	"crossbar.CapturedThenWritten":                      {false, false, false},
	"crossbar.CapturedThenWritten$1":                    {true, true, true},
	"crossbar.Client.PumpFresh":                         {true, true, true},
	"crossbar.Client.PumpMarshal":                       {true, true, true},
	"crossbar.Hub.Forward":                              {true, true, true},
	"crossbar.Hub.ForwardSelect":                        {true, true, true},
	"crossbar.Client.PumpFreshHelper":                   {true, true, true},
	"crossbar.Client.PumpScratch":                       {false, false, false},
	"crossbar.Client.PumpField":                         {false, false, false},
	"crossbar.Client.PumpArgument":                      {false, false, false},
	"crossbar.Client.PumpWrittenAfter":                  {false, false, false},
	"crossbar.Client.PumpReusingHelper":                 {false, false, false},
	"crossbar.Client.PumpKeptInField":                   {false, false, false},
	"crossbar.Client.connWriter":                        {true, true, true},
	"crossbar.Client.ConnReaderPongsWithWriteControl":   {true, true, true},
	"crossbar.Client.ConnReaderPongsWithWriteControl$1": {true, true, true},
	"crossbar.Client.ConnReaderPongsWithWriteMessage":   {true, true, true},
	"crossbar.Client.ConnReaderPongsWithWriteMessage$1": {false, false, false},
	"crossbar.Client.ConnSecondWriter":                  {false, false, false},
	"crossbar.StartConn":                                {true, true, true},
	"access.completeHandler$1":                          {true, true, true},
	"access.abandonableHandler$1":                       {false, false, false},
}

// exact IR of a few corpus functions: guards against a translation that passes by producing nothing
var stShape = map[string]string{
	"ttlcode.CodeStore.Locked":               "Lock c:CodeStore.Mutex; Wr c:CodeStore.store; Unlock c:CodeStore.Mutex",
	"ttlcode.CodeStore.DeferUnlock":          "Lock c:CodeStore.Mutex; Choice{Unlock c:CodeStore.Mutex; Return | Skip}; Rd c:CodeStore.store; Unlock c:CodeStore.Mutex; Return; Unlock c:CodeStore.Mutex",
	"ttlcode.CodeStore.BreakAfterUnlock":     "Loop{Lock c:CodeStore.Mutex; Wr c:CodeStore.store; Unlock c:CodeStore.Mutex}; Lock c:CodeStore.Mutex; Unlock c:CodeStore.Mutex",
	"deny.Store.Prune":                       "Lock s:deny.Store.Mutex; Rd s:deny.Store.DenyList; Loop{Wr s:deny.Store.AllowList; Rd s:deny.Store.DenyList}; Unlock s:deny.Store.Mutex",
	"chanmap.Store.AliasUsedAfterUnlock":     "Lock s:chanmap.Store.Mutex; Rd s:chanmap.Store.ChildrenByParent; Unlock s:chanmap.Store.Mutex; Wr s:chanmap.Store.ChildrenByParent",
	"crossbar.Hub.SelectDefaultSend":         "RLock h:Hub.mu; Rd h:Hub.clients; Loop{Rd h:Hub.clients}; Unlock h:Hub.mu",
	"crossbar.Hub.BlockingSelectWhileLocked": "Lock h:Hub.mu; Choice{Block h.unregister | Block done}; Unlock h:Hub.mu",
	"crossbar.Hub.run":                       "Loop{Block h.unregister; Lock h:Hub.mu; Rd h:Hub.clients; Choice{Wr h:Hub.clients | Skip}; Unlock h:Hub.mu}",
	"crossbar.Client.WrongClient":            "Lock c.stats.tx:Frames.mu; Wr o.stats.tx:Frames.last; Unlock c.stats.tx:Frames.mu",
	"access.denyNested$1":                    "Lock config.DenyStore:deny.Store.Mutex; Wr config.DenyStore:deny.Store.DenyList; Lock config.CodeStore:CodeStore.Mutex; Wr config.CodeStore:CodeStore.store; Unlock config.CodeStore:CodeStore.Mutex; Unlock config.DenyStore:deny.Store.Mutex",
	"deny.Store.DenyThen":                    "Lock s:deny.Store.Mutex; Wr s:deny.Store.DenyList; Unlock s:deny.Store.Mutex",
	"crossbar.PublishThenWrite":              "Block h.unregister; Wr c:Client.stats (after publication)",
}

// helpers that must NOT become entries (they are inlined)
var stHelpers = []string{"deny.Store.prune", "deny.Store.prune2", "crossbar.Hub.drop", "crossbar.newClient", "access.sessionNested"}

// constructs the translator must refuse (fail closed), each added to package ttlcode on its own
var stRefuse = []struct{ name, src, want string }{
	{"return-guarded-map", `func (c *CodeStore) X() map[string]int { c.Lock(); defer c.Unlock(); return c.store }`, "is returned"},
	{"address-of-guarded", `func (c *CodeStore) X() { p := &c.store; _ = p }`, "address of guarded"},
	{"mutex-as-value", `func (c *CodeStore) X() { m := &c.Mutex; m.Lock(); m.Unlock() }`, "mutex"},
	{"labelled-break", `func (c *CodeStore) X() { c.Lock(); L: for { break L }; c.Unlock() }`, "label"},
	{"goto", `func (c *CodeStore) X() { c.Lock(); goto E; E: c.Unlock() }`, "goto"},
	{"conditional-defer", `func (c *CodeStore) X(b bool) { c.Lock(); if b { defer c.Unlock() } }`, "conditional defer"},
	{"lock-through-call", `func get() *CodeStore { return nil }
func X() { get().Lock(); get().Unlock() }`, "not a variable/field path"},
	{"prefix-reassigned", `func (c *CodeStore) X(o *CodeStore) { c.Lock(); c = o; c.Unlock() }`, "re-assigned"},
	{"guarded-map-passed-out", `func sink(m map[string]int) {}
func (c *CodeStore) X() { c.Lock(); sink(c.store); c.Unlock() }`, "is passed to a function"},
	{"alias-captured-by-literal", `func (c *CodeStore) X() { c.Lock(); m := c.store; c.Unlock(); go func() { m["a"] = 1 }() }`, "function literal"},
	{"trylock", `func (c *CodeStore) X() { if c.TryLock() { c.Unlock() } }`, "lock operation inside an expression"},
	{"stored-in-global", `var leak map[string]int
func (c *CodeStore) X() { c.Lock(); leak = c.store; c.Unlock() }`, "non-local variable"},
	{"stored-in-field", `type box struct{ m map[string]int }
func (c *CodeStore) X(b *box) { c.Lock(); b.m = c.store; c.Unlock() }`, "is stored in a field"},
	{"sent-on-channel", `func (c *CodeStore) X(ch chan map[string]int) { c.Lock(); ch <- c.store; c.Unlock() }`, "is sent on a channel"},
	{"recursion", `func (c *CodeStore) X(n int) { c.Lock(); c.store["a"] = n; c.Unlock(); if n > 0 { c.X(n - 1) } }`, "recursive"},
	{"whole-struct-copy", `func (c *CodeStore) X() CodeStore { return *c }`, "whole CodeStore is copied"},
	{"whole-struct-overwrite", `func (c *CodeStore) X() { *c = CodeStore{} }`, "whole CodeStore is overwritten"},
	{"deferred-call-reads-guarded", `func show(n int) {}
func (c *CodeStore) X() { c.Lock(); defer show(len(c.store)); c.Unlock() }`, "deferred call whose arguments"},
	{"callback-under-lock", `func (c *CodeStore) X(xs []int) { c.Lock(); sort.Slice(xs, func(i, j int) bool { return c.store["a"] > 0 }); c.Unlock() }`, "call order unknown"},
	{"unknown-mutex", `type other struct{ mu interface{ Lock(); Unlock() } }
func (c *CodeStore) X(o *other) { o.mu.Lock(); c.store["a"] = 1; o.mu.Unlock() }`, "unknown lock"},
	{"callback-unresolvable", `func (c *CodeStore) X() { var g func() bool; c.SubmitIf("a", g) }`, "cannot be resolved"},
	{"callback-function-as-value", `func (c *CodeStore) X() { f := c.SubmitIf; _ = f }`, "used as a function value"},
	{"relay:guarded-map-logged", `func show(m map[string]interface{}) {}
func Log(ds *deny.Store) { ds.Prune(); show(map[string]interface{}{"allow": ds.AllowList, "deny": ds.DenyList}) }`, "is stored in a composite literal"},
	{"fallthrough", `func (c *CodeStore) X(n int) { c.Lock(); switch n { case 0: fallthrough; case 1: }; c.Unlock() }`, "fallthrough"},
}

func stMem(extra string) map[string][]byte {
	m := map[string][]byte{
		"internal/ttlcode/a.go":  []byte(stTtlcode),
		"internal/deny/a.go":     []byte(stDeny),
		"internal/chanmap/a.go":  []byte(stChanmap),
		"internal/crossbar/a.go": []byte(stCrossbar),
		"internal/access/a.go":   []byte(stAccess),
		"internal/relay/a.go":    []byte(stRelay),
	}
	if strings.HasPrefix(extra, "relay:") {
		m["internal/relay/b.go"] = []byte("package relay\nimport \"example.org/selftest/internal/deny\"\n" + strings.TrimPrefix(extra, "relay:") + "\n")
	} else if extra != "" {
		m["internal/ttlcode/b.go"] = []byte("package ttlcode\n" + extra + "\n")
	}
	return m
}

func selftest() (bool, string, string) {
	var log, coq strings.Builder
	ok := true
	bad := func(format string, a ...interface{}) {
		ok = false
		log.WriteString("selftest FAIL: " + fmt.Sprintf(format, a...) + "\n")
	}
	t, rep, err := translate("", nil, stMem(""))
	if err != nil {
		return false, "selftest: " + err.Error() + "\n", ""
	}
	for _, e := range t.errs {
		bad("corpus not translated: %s", e)
	}
	coq.WriteString("(* GENERATED by translator/lock: the translator's self-test corpus (small Go functions with known verdicts),\n   judged by the Coq checkers. Do not edit. *)\n")
	coq.WriteString("From Relay Require Import Base.Prelude Model.LockIR.\nLocal Open Scope string_scope.\n\n")
	got := map[string]stExpect{}
	byFunc := map[string][]Diag{}
	for _, d := range rep.Diagnostics {
		byFunc[d.Func] = append(byFunc[d.Func], d)
	}
	seen := map[string]bool{}
	var names []string
	for _, e := range t.entries {
		seen[e.Name] = true
		names = append(names, e.Name)
		v := stExpect{true, true, true}
		for _, d := range byFunc[e.Name] {
			switch d.Check {
			case "well_locked":
				v.wl = false
			case "no_block":
				v.nb = false
			case "lock_order":
				v.lo = false
			}
		}
		v.nb = v.nb && v.wl
		v.lo = v.lo && v.wl
		got[e.Name] = v
	}
	sort.Strings(names)
	for name, want := range stWant {
		g, present := got[name]
		if !present {
			bad("%s: not translated as an entry", name)
			continue
		}
		if g != want {
			bad("%s: verdict (well_locked,no_block,lock_order) = %v, expected %v; diagnostics %v", name, g, want, byFunc[name])
		}
	}
	for _, n := range names {
		if _, listed := stWant[n]; !listed {
			bad("%s: corpus function without an expected verdict", n)
		}
	}
	for _, e := range t.entries {
		if want, ok := stShape[e.Name]; ok && e.Body.Short() != want {
			bad("%s: IR is\n    %s\n  expected\n    %s", e.Name, e.Body.Short(), want)
		}
	}
	for _, h := range stHelpers {
		if seen[h] {
			bad("%s: helper became an entry", h)
		}
	}
	for _, e := range t.entries {
		want, listed := stWant[e.Name]
		if !listed {
			continue
		}
		id := "st_" + coqIdent(e.Name)
		coq.WriteString(fmt.Sprintf("Definition %s : sstmt :=\n  %s.\n", id, e.Body.Coq("  ")))
		coq.WriteString(fmt.Sprintf("Example %s_wl : well_locked_fn %s = %v.\nProof. vm_compute. reflexivity. Qed.\n", id, id, want.wl))
		coq.WriteString(fmt.Sprintf("Example %s_nb : no_block_fn %s = %v.\nProof. vm_compute. reflexivity. Qed.\n", id, id, want.nb))
		coq.WriteString(fmt.Sprintf("Example %s_lo : lock_order_fn %s = %v.\nProof. vm_compute. reflexivity. Qed.\n\n", id, id, want.lo))
	}
	for _, r := range stRefuse {
		src := r.src
		if strings.HasPrefix(r.name, "relay:") {
			src = "relay:" + src
		}
		t2, _, err := translate("", nil, stMem(src))
		if err != nil {
			bad("refuse/%s: %v", r.name, err)
			continue
		}
		hit := false
		for _, e := range t2.errs {
			if strings.Contains(e, r.want) {
				hit = true
			}
		}
		if !hit {
			bad("refuse/%s: the translator should fail closed with %q, got %v", r.name, r.want, t2.errs)
		}
	}
	log.WriteString(fmt.Sprintf("selftest: %d corpus functions with known verdicts, %d constructs that must be refused\n", len(stWant), len(stRefuse)))
	return ok, log.String(), coq.String()
}
