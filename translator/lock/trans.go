package main

import (
	"fmt"
	"go/ast"
	"go/token"
	"go/types"
	"sort"
	"strings"
)

type FuncInfo struct {
	Obj      *types.Func
	Decl     *ast.FuncDecl
	Pkg      *Pkg
	Name     string // e.g. ttlcode.CodeStore.SubmitToken
	Recv     string // receiver type name or ""
	Exported bool
	// how the function is referred to in non-test code of the four packages
	directCalls int
	goTarget    bool
	valueUses   int
}

type Entry struct {
	Name  string
	Kind  string // func | method | go-literal | callback-literal
	Pos   token.Position
	Body  *Stmt
	Store bool // exported method of one of the stores (single-section obligation)
	fi    *FuncInfo
}

type taintInfo struct {
	ref   Ref
	label string
}

// a callee-local root that survives inlining: kept distinct from the caller's variables
type qroot struct {
	obj types.Object
	via string
}

type Trans struct {
	fset        *token.FileSet
	pkgs        []*Pkg
	mutexVars   map[*types.Var]*GuardSpec
	fieldVars   map[*types.Var]string
	fieldRefy   map[*types.Var]bool // field holds a reference (map, slice, pointer...)
	specOf      map[*types.TypeName]*GuardSpec
	funcs       map[*types.Func]*FuncInfo
	order       []*FuncInfo
	inlineIR    map[*types.Func]*Stmt
	inProg      map[*types.Func]bool
	entries     []*Entry
	errs        []string
	notes       []string
	funcParams  map[types.Object]*FuncInfo // func-typed parameters of declared functions
	pubFields   map[*types.Var]string      // fields of publish-once structs (crossbar.Client) -> label
	pubTypes    map[*types.TypeName]bool
	pubInfos    map[*FuncInfo]*pubInfo
	freshMemo   map[*types.Func]int // 0 unknown, 1 in progress, 2 yes, 3 no
	channels    []ChanDecl
	selN        int
	connBad     map[token.Pos]string
	bufInfos    map[*FuncInfo]*bufInfo
	freshRes    map[string]string
	freshBusy   map[string]bool
	cbUnderLock []*FuncInfo                   // functions that invoke a callback parameter and take locks
	pathFlds    map[*types.Var]token.Position // fields that occur inside a source-level lock/field prefix
	assigned    map[*types.Var]token.Position // fields assigned through a selector somewhere
}

func (t *Trans) fail(pos token.Pos, format string, a ...interface{}) {
	msg := fmt.Sprintf(format, a...)
	p := t.fset.Position(pos)
	e := fmt.Sprintf("%s:%d:%d: %s", p.Filename, p.Line, p.Column, msg)
	for _, x := range t.errs {
		if x == e {
			return
		}
	}
	t.errs = append(t.errs, e)
}

func pkgShort(p *Pkg) string {
	i := strings.LastIndex(p.Dir, "/")
	return p.Dir[i+1:]
}

// ---------------------------------------------------------------------------------------------
// set-up: resolve the guard table against the type-checked packages, index functions and their uses

func (t *Trans) setup() {
	t.mutexVars = map[*types.Var]*GuardSpec{}
	t.fieldVars = map[*types.Var]string{}
	t.fieldRefy = map[*types.Var]bool{}
	t.specOf = map[*types.TypeName]*GuardSpec{}
	t.funcs = map[*types.Func]*FuncInfo{}
	t.inlineIR = map[*types.Func]*Stmt{}
	t.inProg = map[*types.Func]bool{}
	t.pathFlds = map[*types.Var]token.Position{}
	t.assigned = map[*types.Var]token.Position{}
	t.funcParams = map[types.Object]*FuncInfo{}
	t.pubFields = map[*types.Var]string{}
	t.pubTypes = map[*types.TypeName]bool{}
	t.pubInfos = map[*FuncInfo]*pubInfo{}
	t.freshMemo = map[*types.Func]int{}
	byDir := map[string]*Pkg{}
	for _, p := range t.pkgs {
		byDir[p.Dir] = p
	}
	for _, gs := range guardSpecs {
		p := byDir[gs.PkgDir]
		if p == nil {
			t.errs = append(t.errs, fmt.Sprintf("guard table: package %s not loaded", gs.PkgDir))
			continue
		}
		obj, _ := p.Types.Scope().Lookup(gs.Type).(*types.TypeName)
		if obj == nil {
			t.errs = append(t.errs, fmt.Sprintf("guard table: type %s.%s no longer exists", gs.PkgDir, gs.Type))
			continue
		}
		st, _ := obj.Type().Underlying().(*types.Struct)
		if st == nil {
			t.errs = append(t.errs, fmt.Sprintf("guard table: %s.%s is not a struct", gs.PkgDir, gs.Type))
			continue
		}
		t.specOf[obj] = gs
		found := map[string]bool{}
		for i := 0; i < st.NumFields(); i++ {
			f := st.Field(i)
			if f.Name() == gs.Mutex {
				t.mutexVars[f] = gs
				found[f.Name()] = true
			}
			if l, ok := gs.Fields[f.Name()]; ok {
				t.fieldVars[f] = l
				found[f.Name()] = true
			}
		}
		if !found[gs.Mutex] {
			t.errs = append(t.errs, fmt.Sprintf("guard table: %s.%s has no mutex field %s", gs.PkgDir, gs.Type, gs.Mutex))
		}
		for n := range gs.Fields {
			if !found[n] {
				t.errs = append(t.errs, fmt.Sprintf("guard table: %s.%s has no field %s", gs.PkgDir, gs.Type, n))
			}
		}
		// does the field hold a reference? read off the declaration (imported types are opaque)
		for _, f := range p.Files {
			ast.Inspect(f, func(n ast.Node) bool {
				ts, ok := n.(*ast.TypeSpec)
				if !ok || ts.Name.Name != gs.Type {
					return true
				}
				stx, ok := ts.Type.(*ast.StructType)
				if !ok {
					return true
				}
				for _, fl := range stx.Fields.List {
					for _, nm := range fl.Names {
						if v, ok := p.Info.Defs[nm].(*types.Var); ok {
							if _, g := t.fieldVars[v]; g {
								t.fieldRefy[v] = typeExprIsRef(fl.Type)
							}
						}
					}
				}
				return false
			})
		}
	}
	// functions
	for _, p := range t.pkgs {
		for _, f := range p.Files {
			for _, d := range f.Decls {
				fd, ok := d.(*ast.FuncDecl)
				if !ok || fd.Body == nil {
					continue
				}
				obj, _ := p.Info.Defs[fd.Name].(*types.Func)
				if obj == nil {
					continue
				}
				fi := &FuncInfo{Obj: obj, Decl: fd, Pkg: p, Exported: fd.Name.IsExported()}
				fi.Name = pkgShort(p) + "." + fd.Name.Name
				if fd.Recv != nil && len(fd.Recv.List) == 1 {
					fi.Recv = recvTypeName(fd.Recv.List[0].Type)
					fi.Name = pkgShort(p) + "." + fi.Recv + "." + fd.Name.Name
				}
				t.funcs[obj] = fi
				t.order = append(t.order, fi)
			}
		}
	}
	for _, fi := range t.order {
		for _, f := range fi.Decl.Type.Params.List {
			for _, n := range f.Names {
				if o := fi.Pkg.Info.Defs[n]; o != nil {
					if _, isFn := o.Type().Underlying().(*types.Signature); isFn {
						t.funcParams[o] = fi
					}
				}
			}
		}
	}
	// publish-once structs: fields are written only while the object is still private to its constructor
	for _, ps := range publishOnce {
		p := byDir[ps.PkgDir]
		if p == nil {
			continue
		}
		obj, _ := p.Types.Scope().Lookup(ps.Type).(*types.TypeName)
		if obj == nil {
			t.errs = append(t.errs, fmt.Sprintf("publish-once table: type %s.%s no longer exists", ps.PkgDir, ps.Type))
			continue
		}
		st, _ := obj.Type().Underlying().(*types.Struct)
		if st == nil {
			continue
		}
		t.pubTypes[obj] = true
		for i := 0; i < st.NumFields(); i++ {
			t.pubFields[st.Field(i)] = ps.Type + "." + st.Field(i).Name() + " (after publication)"
		}
	}
	defer t.connPrepass()
	// uses: direct call / go target / value
	for _, p := range t.pkgs {
		for _, f := range p.Files {
			callFun := map[*ast.Ident]bool{}
			goFun := map[*ast.Ident]bool{}
			ast.Inspect(f, func(n ast.Node) bool {
				switch x := n.(type) {
				case *ast.GoStmt:
					if id := funIdent(x.Call.Fun); id != nil {
						goFun[id] = true
					}
				case *ast.CallExpr:
					if id := funIdent(x.Fun); id != nil {
						callFun[id] = true
					}
				}
				return true
			})
			for id, obj := range p.Info.Uses {
				fn, ok := obj.(*types.Func)
				if !ok {
					continue
				}
				fi := t.funcs[fn]
				if fi == nil || t.fset.Position(id.Pos()).Filename != t.fset.Position(f.Pos()).Filename {
					continue
				}
				switch {
				case goFun[id]:
					fi.goTarget = true
				case callFun[id]:
					fi.directCalls++
				default:
					fi.valueUses++
				}
			}
		}
	}
}

func funIdent(e ast.Expr) *ast.Ident {
	switch x := stripParens(e).(type) {
	case *ast.Ident:
		return x
	case *ast.SelectorExpr:
		return x.Sel
	}
	return nil
}

func recvTypeName(e ast.Expr) string {
	switch x := e.(type) {
	case *ast.StarExpr:
		return recvTypeName(x.X)
	case *ast.Ident:
		return x.Name
	case *ast.IndexExpr:
		return recvTypeName(x.X)
	}
	return "?"
}

func typeExprIsRef(e ast.Expr) bool {
	switch x := e.(type) {
	case *ast.StarExpr, *ast.MapType, *ast.ChanType, *ast.FuncType, *ast.InterfaceType:
		return true
	case *ast.ArrayType:
		return x.Len == nil
	case *ast.SelectorExpr:
		if id, ok := x.X.(*ast.Ident); ok && id.Name == "time" && (x.Sel.Name == "Time" || x.Sel.Name == "Duration") {
			return false
		}
		return true // an imported type we cannot see: assume it may be a reference
	case *ast.Ident:
		switch x.Name {
		case "bool", "string", "int", "int8", "int16", "int32", "int64", "uint", "uint8", "uint16", "uint32", "uint64",
			"float32", "float64", "byte", "rune", "uintptr", "complex64", "complex128":
			return false
		}
		return true
	case *ast.ParenExpr:
		return typeExprIsRef(x.X)
	}
	return true
}

func stripParens(e ast.Expr) ast.Expr {
	for {
		p, ok := e.(*ast.ParenExpr)
		if !ok {
			return e
		}
		e = p.X
	}
}

func stripParensStars(e ast.Expr) ast.Expr {
	for {
		switch x := e.(type) {
		case *ast.ParenExpr:
			e = x.X
		case *ast.StarExpr:
			e = x.X
		default:
			return e
		}
	}
}

// is a helper: unexported, and every reference to it is a plain call from the translated packages.
// Its executions are always part of a caller's execution, so it is inlined there and is not a thread
// entry point of its own ("caller holds the lock" helpers: prune, deleteAndOptionalClose*).
func (fi *FuncInfo) isHelper() bool {
	return !fi.Exported && !fi.goTarget && fi.valueUses == 0 && fi.Decl.Name.Name != "init" && fi.Decl.Name.Name != "main"
}

// ---------------------------------------------------------------------------------------------
// translation of one function body

type flow struct{ norm, brk, cont, ret *Stmt }

type fnCtx struct {
	t         *Trans
	pkg       *Pkg
	fi        *FuncInfo
	inline    bool
	defers    []*Stmt
	depth     int
	taint     map[types.Object]taintInfo
	captured  map[types.Object]bool // tainted variables of an enclosing function (must not be used here)
	fresh     map[types.Object]bool
	refRoots  map[types.Object]token.Pos
	asgRoots  map[types.Object]token.Pos
	callbacks []*Stmt
	litN      *int
	ctor      bool
	noRecord  bool // pathOf is resolving a call argument for inlining: not a source-level lock prefix
}

func (t *Trans) newCtx(fi *FuncInfo, inline bool) *fnCtx {
	n := 0
	nm := fi.Decl.Name.Name
	return &fnCtx{t: t, pkg: fi.Pkg, fi: fi, inline: inline, taint: map[types.Object]taintInfo{}, captured: map[types.Object]bool{},
		fresh: map[types.Object]bool{}, refRoots: map[types.Object]token.Pos{}, asgRoots: map[types.Object]token.Pos{}, litN: &n,
		ctor: strings.HasPrefix(nm, "New") || strings.HasPrefix(nm, "new")}
}

func (c *fnCtx) pos(p token.Pos) token.Position { return c.t.fset.Position(p) }

func (c *fnCtx) objOf(id *ast.Ident) types.Object {
	if o := c.pkg.Info.Defs[id]; o != nil {
		return o
	}
	return c.pkg.Info.Uses[id]
}

// pathOf: ident(.field)* -> Ref
func (c *fnCtx) pathOf(e ast.Expr) (Ref, bool) {
	switch x := stripParensStars(e).(type) {
	case *ast.Ident:
		o := c.objOf(x)
		if o == nil {
			return Ref{}, false
		}
		if _, isVar := o.(*types.Var); !isVar {
			return Ref{}, false
		}
		return Ref{Root: o}, true
	case *ast.SelectorExpr:
		if id, ok := x.X.(*ast.Ident); ok {
			if _, isPkg := c.objOf(id).(*types.PkgName); isPkg {
				o := c.objOf(x.Sel)
				if _, isVar := o.(*types.Var); isVar {
					return Ref{Root: o}, true
				}
				return Ref{}, false
			}
		}
		sel := c.pkg.Info.Selections[x]
		if sel == nil || sel.Kind() != types.FieldVal {
			return Ref{}, false
		}
		r, ok := c.pathOf(x.X)
		if !ok {
			return Ref{}, false
		}
		if v, ok := sel.Obj().(*types.Var); ok && !c.noRecord {
			if _, seen := c.t.pathFlds[v]; !seen {
				c.t.pathFlds[v] = c.pos(x.Pos())
			}
		}
		r.Path = append(append([]string{}, r.Path...), x.Sel.Name)
		return r, true
	}
	return Ref{}, false
}

func (c *fnCtx) noteRoot(r Ref, p token.Pos) {
	if o, ok := r.Root.(types.Object); ok {
		if _, seen := c.refRoots[o]; !seen {
			c.refRoots[o] = p
		}
	}
}

// guarded: is e (after parens) a guarded field selector or a tainted local alias?
func (c *fnCtx) guarded(e ast.Expr) (ref Ref, label string, refy bool, ok bool) {
	switch x := stripParens(e).(type) {
	case *ast.Ident:
		o := c.objOf(x)
		if o == nil {
			return
		}
		if c.captured[o] {
			c.t.fail(x.Pos(), "alias %s of a guarded map is used inside a function literal (aliasing not tracked across closures)", x.Name)
			return
		}
		if ti, y := c.taint[o]; y {
			return ti.ref, ti.label, true, true
		}
	case *ast.SelectorExpr:
		sel := c.pkg.Info.Selections[x]
		if sel == nil {
			return
		}
		v, isVar := sel.Obj().(*types.Var)
		if !isVar {
			return
		}
		l, g := c.t.fieldVars[v]
		if !g {
			return
		}
		if len(sel.Index()) != 1 {
			c.t.fail(x.Pos(), "guarded field %s reached through an embedded struct: not supported", x.Sel.Name)
			return
		}
		r, pok := c.pathOf(x.X)
		if !pok {
			c.t.fail(x.Pos(), "guarded field %s reached through an expression that is not a variable/field path", x.Sel.Name)
			return
		}
		if o, isObj := r.Root.(types.Object); isObj && c.fresh[o] {
			return // object under construction, not shared yet
		}
		c.noteRoot(r, x.Pos())
		return r, l, c.t.fieldRefy[v], true
	}
	return
}

// baseGuarded: e is a guarded thing or an index chain over one. idx = effects of the index expressions.
func (c *fnCtx) baseGuarded(e ast.Expr) (ref Ref, label string, idx *Stmt, depth int, ok bool) {
	e = stripParens(e)
	if r, l, _, y := c.guarded(e); y {
		return r, l, skip(), 0, true
	}
	if ix, y := e.(*ast.IndexExpr); y {
		r, l, s, d, y2 := c.baseGuarded(ix.X)
		if y2 {
			return r, l, seq(s, c.expr(ix.Index)), d + 1, true
		}
	}
	return
}

func refLike(t types.Type) bool {
	if t == nil {
		return true
	}
	switch u := t.Underlying().(type) {
	case *types.Map, *types.Slice, *types.Array:
		return true
	case *types.Pointer:
		switch u.Elem().Underlying().(type) {
		case *types.Map, *types.Slice, *types.Array:
			return true
		}
		if b, ok := u.Elem().Underlying().(*types.Basic); ok && b.Kind() == types.Invalid {
			return true
		}
		return false
	case *types.Basic:
		return u.Kind() == types.Invalid
	case *types.Interface:
		return true
	}
	return false
}

// directRef: e denotes (a reference to) guarded data itself: the guarded map, an inner map, a local alias
func (c *fnCtx) directRef(e ast.Expr) (Ref, string, bool) {
	e = stripParens(e)
	if r, l, refy, ok := c.guarded(e); ok {
		return r, l, refy
	}
	if r, l, _, d, ok := c.baseGuarded(e); ok && d > 0 {
		return r, l, refLike(c.pkg.Info.TypeOf(e))
	}
	return Ref{}, "", false
}

func (c *fnCtx) escapes(e ast.Expr, how string) {
	if _, l, y := c.directRef(e); y {
		c.t.fail(e.Pos(), "guarded data %s %s: it could then be used without the lock (aliasing)", l, how)
	}
}

func (c *fnCtx) rd(r Ref, l string, p token.Pos) *Stmt {
	return &Stmt{K: KRd, Ref: r, Label: l, Pos: c.pos(p)}
}
func (c *fnCtx) wr(r Ref, l string, p token.Pos) *Stmt {
	return &Stmt{K: KWr, Ref: r, Label: l, Pos: c.pos(p)}
}

var readOnlyMethods = map[string]bool{
	// welford.Stats
	"Count": true, "Mean": true, "Variance": true, "Stddev": true, "Min": true, "Max": true,
	// time.Time (value receiver, pure)
	"UnixNano": true, "Unix": true, "UnixMilli": true, "UTC": true, "Local": true, "String": true, "Sub": true, "After": true,
	"Before": true, "Equal": true, "IsZero": true, "Format": true, "MarshalText": true, "MarshalJSON": true,
}

var lockMethods = map[string]bool{"Lock": true, "Unlock": true, "RLock": true, "RUnlock": true, "TryLock": true, "TryRLock": true, "RLocker": true}

// lockOp recognises X.Lock() / X.mu.RLock() ... on a mutex of the guard table
func (c *fnCtx) lockOp(call *ast.CallExpr) (*Stmt, bool) {
	se, ok := stripParens(call.Fun).(*ast.SelectorExpr)
	if !ok || !lockMethods[se.Sel.Name] {
		return nil, false
	}
	// only methods of mutexes are of interest; a same-package method that happens to be called Lock is a call
	if fn, ok := c.pkg.Info.Uses[se.Sel].(*types.Func); ok && c.t.funcs[fn] != nil {
		return nil, false
	}
	var ref Ref
	var gs *GuardSpec
	if inner, ok := stripParens(se.X).(*ast.SelectorExpr); ok {
		if sel := c.pkg.Info.Selections[inner]; sel != nil {
			if v, ok := sel.Obj().(*types.Var); ok {
				if g := c.t.mutexVars[v]; g != nil {
					r, pok := c.pathOf(inner.X)
					if !pok {
						c.t.fail(call.Pos(), "mutex %s reached through an expression that is not a variable/field path", g.LockLabel)
						return skip(), true
					}
					ref, gs = r, g
				}
			}
		}
	}
	if gs == nil {
		tp := c.pkg.Info.TypeOf(se.X)
		if p, ok := tp.(*types.Pointer); ok {
			tp = p.Elem()
		}
		if n, ok := tp.(*types.Named); ok {
			if g := c.t.specOf[n.Obj()]; g != nil && g.Mutex == "Mutex" {
				r, pok := c.pathOf(se.X)
				if !pok {
					c.t.fail(call.Pos(), "mutex %s reached through an expression that is not a variable/field path", g.LockLabel)
					return skip(), true
				}
				ref, gs = r, g
			}
		}
	}
	if gs == nil {
		// a second mutex inside a struct of the guard table: somebody has moved a guarded field under another lock
		if inner, ok := stripParens(se.X).(*ast.SelectorExpr); ok {
			if sel := c.pkg.Info.Selections[inner]; sel != nil && sel.Kind() == types.FieldVal {
				rt := sel.Recv()
				if p, isPtr := rt.(*types.Pointer); isPtr {
					rt = p.Elem()
				}
				if n, isNamed := rt.(*types.Named); isNamed {
					if g := c.t.specOf[n.Obj()]; g != nil {
						var fs []string
						for f := range g.Fields {
							fs = append(fs, f)
						}
						sort.Strings(fs)
						c.t.fail(call.Pos(), "guard-changed: %s() on %s.%s, a mutex that is not the guard of %s in the guard table (the specification says %s {%s} are guarded by %s): a guarded field has been moved under another lock, so accesses under the new lock and under the old one no longer exclude each other - change the code back or change the specification (guard_table in coq/Model/LockIR.v and translator/lock/load.go) deliberately",
							se.Sel.Name, g.Type, inner.Sel.Name, g.Type, g.Type, strings.Join(fs, ", "), g.LockLabel)
						return skip(), true
					}
				}
			}
		}
		c.t.fail(call.Pos(), "%s() on something that is not a mutex of the guard table (unknown lock)", se.Sel.Name)
		return skip(), true
	}
	if o, isObj := ref.Root.(types.Object); isObj && c.fresh[o] {
		return skip(), true
	}
	c.noteRoot(ref, call.Pos())
	switch se.Sel.Name {
	case "Lock":
		return &Stmt{K: KAcq, Ref: ref, Label: gs.LockLabel, Ex: true, Pos: c.pos(call.Pos())}, true
	case "RLock":
		return &Stmt{K: KAcq, Ref: ref, Label: gs.LockLabel, Ex: false, Pos: c.pos(call.Pos())}, true
	case "Unlock", "RUnlock":
		return &Stmt{K: KRel, Ref: ref, Label: gs.LockLabel, Pos: c.pos(call.Pos())}, true
	}
	c.t.fail(call.Pos(), "%s on %s: conditional locking (a lock operation inside an expression) is not supported", se.Sel.Name, gs.LockLabel)
	return skip(), true
}
