From Coq Require Import List Arith Bool Lia.
Import ListNotations.
Require Import LockIR.

Section Dyn.
Variable guard : field -> lock.

Definition thread := (lockset * list stmt)%type.
Definition pool := list thread.

Fixpoint check_cont (ls : lockset) (k : list stmt) : bool :=
  match k with
  | [] => match ls with [] => true | _ => false end
  | s :: k' => match check guard ls s with
               | None => false
               | Some None => true
               | Some (Some ls') => check_cont ls' k'
               end
  end.

Fixpoint upd (p : pool) (i : nat) (t : thread) : pool :=
  match p, i with
  | [], _ => []
  | _ :: r, O => t :: r
  | x :: r, S i' => x :: upd r i' t
  end.

Lemma nth_upd_same p i t u : nth_error p i = Some u -> nth_error (upd p i t) i = Some t.
Proof. revert i; induction p as [|x p IH]; intros [|i]; simpl; try discriminate; auto. Qed.
Lemma nth_upd_other p i j t : i <> j -> nth_error (upd p i t) j = nth_error p j.
Proof.
  revert i j; induction p as [|x p IH]; intros i j H; destruct i, j; simpl; try reflexivity; try congruence.
  apply IH; lia.
Qed.
Lemma nth_upd_inv p i j t u : nth_error (upd p i t) j = Some u ->
  (i = j /\ u = t /\ exists v, nth_error p i = Some v) \/ (i <> j /\ nth_error p j = Some u).
Proof.
  destruct (Nat.eq_dec i j) as [->|Hne].
  - destruct (nth_error p j) eqn:E.
    + rewrite (nth_upd_same _ _ _ _ E). intros [= <-]. left; eauto.
    + intro H. exfalso. revert j E H. induction p as [|x p IH]; intros [|j]; simpl; try discriminate; eauto.
  - rewrite nth_upd_other by assumption. right; auto.
Qed.

Definition free (m : lock) (p : pool) : Prop := forall j t, nth_error p j = Some t -> held m (fst t) = None.
Definition no_ex (m : lock) (p : pool) : Prop := forall j t, nth_error p j = Some t -> held m (fst t) <> Some Ex.

Inductive tstep (p : pool) : thread -> thread -> Prop :=
| TSkip ls k : tstep p (ls, Skip :: k) (ls, k)
| TSeq ls a b k : tstep p (ls, Seq a b :: k) (ls, a :: b :: k)
| TChoiceL ls a b k : tstep p (ls, Choice a b :: k) (ls, a :: k)
| TChoiceR ls a b k : tstep p (ls, Choice a b :: k) (ls, b :: k)
| TLoopExit ls b k : tstep p (ls, Loop b :: k) (ls, k)
| TLoopIter ls b k : tstep p (ls, Loop b :: k) (ls, b :: Loop b :: k)
| TAcqEx ls m k : free m p -> tstep p (ls, Acq m Ex :: k) ((m, Ex) :: ls, k)
| TAcqSh ls m k : no_ex m p -> held m ls = None -> tstep p (ls, Acq m Sh :: k) ((m, Sh) :: ls, k)
| TRel ls m k : tstep p (ls, Rel m :: k) (drop m ls, k)
| TRd ls f k : tstep p (ls, Rd f :: k) (ls, k)
| TWr ls f k : tstep p (ls, Wr f :: k) (ls, k)
| TRet ls k : tstep p (ls, Return :: k) (ls, []).

Inductive step : pool -> pool -> Prop :=
| Step p i t t' : nth_error p i = Some t -> tstep p t t' -> step p (upd p i t').

Inductive steps : pool -> pool -> Prop :=
| steps_refl p : steps p p
| steps_cons p q r : step p q -> steps q r -> steps p r.

Definition thread_ok (t : thread) : Prop := check_cont (fst t) (snd t) = true.
Definition excl (p : pool) : Prop :=
  forall i j t u m, i <> j -> nth_error p i = Some t -> nth_error p j = Some u ->
    held m (fst t) = Some Ex -> held m (fst u) = None.
Definition inv (p : pool) : Prop := (forall i t, nth_error p i = Some t -> thread_ok t) /\ excl p.

Definition at_access (t : thread) (f : field) (w : bool) : Prop :=
  match snd t with
  | Rd f' :: _ => f' = f /\ w = false
  | Wr f' :: _ => f' = f /\ w = true
  | _ => False
  end.

Definition race (p : pool) : Prop :=
  exists i j t u f wt wu, i <> j /\ nth_error p i = Some t /\ nth_error p j = Some u /\
    at_access t f wt /\ at_access u f wu /\ (wt = true \/ wu = true).

Lemma lockset_eqb_eq a b : lockset_eqb a b = true -> a = b.
Proof.
  revert b; induction a as [|[m md] a IH]; intros [|[m' md'] b]; simpl; try discriminate; auto.
  intro H. apply andb_prop in H as [H1 H3]. apply andb_prop in H1 as [H1 H2].
  apply Nat.eqb_eq in H1. subst. apply IH in H3. subst.
  destruct md, md'; try discriminate; reflexivity.
Qed.

Lemma held_drop_same m ls : held m (drop m ls) = None.
Proof. induction ls as [|[m' md] ls IH]; simpl; auto. destruct (Nat.eqb m m') eqn:E; simpl; auto. rewrite E; auto. Qed.
Lemma held_drop_other m m' ls : m <> m' -> held m (drop m' ls) = held m ls.
Proof.
  intro H. induction ls as [|[m2 md] ls IH]; simpl; auto.
  destruct (Nat.eqb m' m2) eqn:E; simpl.
  - apply Nat.eqb_eq in E. subst. destruct (Nat.eqb m m2) eqn:E2; auto. apply Nat.eqb_eq in E2; congruence.
  - rewrite IH; reflexivity.
Qed.
Lemma held_drop_sub m m' ls md : held m (drop m' ls) = Some md -> held m ls = Some md.
Proof.
  destruct (Nat.eq_dec m m') as [->|H]; [rewrite held_drop_same; discriminate|].
  rewrite held_drop_other by assumption; auto.
Qed.

Lemma at_access_held t f w : thread_ok t -> at_access t f w ->
  (w = true -> held (guard f) (fst t) = Some Ex) /\ (held (guard f) (fst t) <> None).
Proof.
  destruct t as [ls k]. unfold thread_ok, at_access. simpl.
  destruct k as [|s k]; [tauto|].
  destruct s; try tauto; simpl; intros Hc [-> ->].
  - destruct (held (guard f) ls) eqn:E; [|discriminate]. split; [discriminate|congruence].
  - destruct (held (guard f) ls) as [[|]|] eqn:E; try discriminate. split; congruence.
Qed.

Theorem inv_no_race p : inv p -> ~ race p.
Proof.
  intros [Hok Hex] (i & j & t & u & f & wt & wu & Hne & Hi & Hj & Ht & Hu & Hw).
  destruct (at_access_held _ _ _ (Hok _ _ Hi) Ht) as [Ht1 Ht2].
  destruct (at_access_held _ _ _ (Hok _ _ Hj) Hu) as [Hu1 Hu2].
  destruct Hw as [-> | ->].
  - apply Hu2. eapply (Hex i j); eauto.
  - apply Ht2. eapply (Hex j i); eauto.
Qed.

(* thread-local preservation of the static check *)
Lemma tstep_ok p t t' : thread_ok t -> tstep p t t' -> thread_ok t'.
Proof.
  unfold thread_ok. intros Hc Hs. destruct Hs; simpl in *.
  - exact Hc.
  - destruct (check guard ls a) as [[l1|]|] eqn:Ea; try discriminate; auto.
  - destruct (check guard ls a) as [[l1|]|] eqn:Ea; destruct (check guard ls b) as [[l2|]|] eqn:Eb; try discriminate; auto.
    destruct (lockset_eqb l1 l2) eqn:E; try discriminate. exact Hc.
  - destruct (check guard ls a) as [[l1|]|] eqn:Ea; destruct (check guard ls b) as [[l2|]|] eqn:Eb; try discriminate; auto.
    destruct (lockset_eqb l1 l2) eqn:E; try discriminate. apply lockset_eqb_eq in E. subst. exact Hc.
  - destruct (check guard ls b) as [[l1|]|] eqn:Eb; try discriminate; auto.
    destruct (lockset_eqb l1 ls) eqn:E; try discriminate. exact Hc.
  - destruct (check guard ls b) as [[l1|]|] eqn:Eb; try discriminate; auto.
    destruct (lockset_eqb l1 ls) eqn:E; try discriminate. apply lockset_eqb_eq in E. subst.
    simpl. rewrite Eb. assert (R: lockset_eqb ls ls = true) by (clear; induction ls as [|[m md] ls IH]; simpl; auto; rewrite Nat.eqb_refl, IH; destruct md; reflexivity). rewrite R. exact Hc.
  - destruct (held m ls) eqn:E; try discriminate. exact Hc.
  - rewrite H0 in Hc. exact Hc.
  - destruct (held m ls) eqn:E; try discriminate. exact Hc.
  - destruct (held (guard f) ls) eqn:E; try discriminate. exact Hc.
  - destruct (held (guard f) ls) as [[|]|] eqn:E; try discriminate. exact Hc.
  - destruct ls; try discriminate. reflexivity.
Qed.

Lemma held_drop_none m m' ls : held m ls = None -> held m (drop m' ls) = None.
Proof.
  intro H. destruct (Nat.eq_dec m m') as [->|Hne]; [apply held_drop_same|].
  rewrite held_drop_other; auto.
Qed.

(* how the stepping thread's lockset may change, relative to the other threads *)
Lemma tstep_lockset p i t t' : nth_error p i = Some t -> tstep p t t' ->
  forall m,
   (held m (fst t') = Some Ex -> held m (fst t) = Some Ex \/
        (forall j u, j <> i -> nth_error p j = Some u -> held m (fst u) = None)) /\
   (held m (fst t') <> None -> held m (fst t) <> None \/
        (forall j u, j <> i -> nth_error p j = Some u -> held m (fst u) <> Some Ex)).
Proof.
  intros Hi Hs m. destruct Hs; simpl; try (split; intro; left; assumption).
  - (* AcqEx *) destruct (Nat.eqb m m0) eqn:E.
    + split; intros _; right; intros j u _ Hj; apply Nat.eqb_eq in E; subst.
      * eapply H; eauto.
      * erewrite H; eauto. discriminate.
    + split; intro; left; assumption.
  - (* AcqSh *) destruct (Nat.eqb m m0) eqn:E.
    + split; [discriminate|]. intros _; right; intros j u _ Hj; apply Nat.eqb_eq in E; subst. eapply H; eauto.
    + split; intro; left; assumption.
  - (* Rel *) split; intro Hh; left.
    + eapply held_drop_sub; eauto.
    + intro Hn. apply Hh. apply held_drop_none. exact Hn.
Qed.

Theorem step_inv p q : inv p -> step p q -> inv q.
Proof.
  intros [Hok Hex] Hs. destruct Hs as [p i t t' Hi Ht]. split.
  - intros j u Hj. apply nth_upd_inv in Hj as [(-> & -> & _) | (Hne & Hj)].
    + eapply tstep_ok; eauto.
    + eauto.
  - intros a b ta tb m Hab Ha Hb Hm.
    pose proof (tstep_lockset _ _ _ _ Hi Ht m) as [L1 L2].
    apply nth_upd_inv in Ha as [(-> & -> & _) | (Hnea & Ha)];
    apply nth_upd_inv in Hb as [(Eb & -> & _) | (Hneb & Hb)]; try congruence.
    + (* a is the stepping thread *)
      destruct (L1 Hm) as [Hold | Hfree].
      * eapply (Hex a b); eauto.
      * eapply Hfree; eauto.
    + (* b is the stepping thread *)
      subst b. destruct (held m (fst t')) eqn:E; [|reflexivity]. exfalso.
      destruct L2 as [Hold | Hnoex]; [congruence| |].
      * apply Hold. eapply (Hex a i); eauto.
      * eapply (Hnoex a); eauto.
    + eapply (Hex a b); eauto.
Qed.

Theorem steps_inv p q : inv p -> steps p q -> inv q.
Proof. intros H Hs. induction Hs; auto. apply IHHs. eapply step_inv; eauto. Qed.

(* initial pools: every thread starts with no locks, running a well-locked function body *)
Definition initial (p : pool) : Prop :=
  forall i t, nth_error p i = Some t -> exists s, t = ([], [s]) /\ well_locked guard s = true.

Lemma initial_inv p : initial p -> inv p.
Proof.
  intro H. split.
  - intros i t Hi. destruct (H _ _ Hi) as (s & -> & Hw). unfold thread_ok, well_locked in *. simpl.
    destruct (check guard [] s) as [[[|]|]|]; try discriminate; reflexivity.
  - intros i j t u m _ Hi _ Hm. destruct (H _ _ Hi) as (s & -> & _). discriminate.
Qed.

Theorem well_locked_race_free p q : initial p -> steps p q -> ~ race q.
Proof. intros Hi Hs. apply inv_no_race. eapply steps_inv; eauto. apply initial_inv; assumption. Qed.


(* atomicity: while thread i holds m exclusively, only i can be at an access of a field guarded by m;
   while i holds m shared, nobody can be at a write of such a field *)
Theorem excl_section_uninterrupted p i j t u m f w :
  inv p -> nth_error p i = Some t -> held m (fst t) = Some Ex ->
  nth_error p j = Some u -> at_access u f w -> guard f = m -> j = i.
Proof.
  intros [Hok Hex] Hi Hm Hj Hu Hg. destruct (Nat.eq_dec j i) as [|Hne]; [assumption|exfalso].
  destruct (at_access_held _ _ _ (Hok _ _ Hj) Hu) as [_ Hn]. apply Hn. rewrite Hg.
  eapply (Hex i j); eauto.
Qed.
Theorem shared_section_sees_no_write p i j t u m f :
  inv p -> nth_error p i = Some t -> held m (fst t) <> None ->
  nth_error p j = Some u -> at_access u f true -> guard f = m -> j = i.
Proof.
  intros [Hok Hex] Hi Hm Hj Hu Hg. destruct (Nat.eq_dec j i) as [|Hne]; [assumption|exfalso].
  destruct (at_access_held _ _ _ (Hok _ _ Hj) Hu) as [Hx _]. apply Hm. rewrite <- Hg.
  eapply (Hex j i); eauto.
Qed.
End Dyn.
Print Assumptions well_locked_race_free.

