From Coq Require Import List Arith Bool Lia.
Import ListNotations.

(* locks and fields are nats; guard : field -> lock *)
Definition lock := nat.
Definition field := nat.
Definition tid := nat.

Inductive mode := Sh | Ex.
Inductive stmt :=
| Skip
| Seq (a b : stmt)
| Choice (a b : stmt)
| Loop (body : stmt)
| Acq (m : lock) (md : mode)
| Rel (m : lock)
| Rd (f : field)
| Wr (f : field)
| Return.

Section Sem.
Variable guard : field -> lock.

(* static lockset: list of (lock, mode) *)
Definition lockset := list (lock * mode).
Fixpoint held (m : lock) (ls : lockset) : option mode :=
  match ls with [] => None | (m', md) :: r => if Nat.eqb m m' then Some md else held m r end.
Fixpoint drop (m : lock) (ls : lockset) : lockset :=
  match ls with [] => [] | (m', md) :: r => if Nat.eqb m m' then drop m r else (m', md) :: drop m r end.

(* continuation-based checking: a continuation is a list of statements.
   check_cont ls k = true means: starting with lockset ls, running k is well locked
   and ends (or Returns) with the empty lockset. Loops must preserve the lockset.
   To stay structural we check statements with an explicit "after" lockset. *)
Fixpoint lockset_eqb (a b : lockset) : bool :=
  match a, b with
  | [], [] => true
  | (m, md) :: a', (m', md') :: b' =>
      Nat.eqb m m' && (match md, md' with Sh, Sh | Ex, Ex => true | _, _ => false end) && lockset_eqb a' b'
  | _, _ => false
  end.

(* result of checking a statement: None = ill-locked; Some None = always returns;
   Some (Some ls') = may fall through with lockset ls' *)
Fixpoint check (ls : lockset) (s : stmt) : option (option lockset) :=
  match s with
  | Skip => Some (Some ls)
  | Seq a b => match check ls a with
               | None => None
               | Some None => Some None   (* b unreachable *)
               | Some (Some ls') => check ls' b
               end
  | Choice a b => match check ls a, check ls b with
                  | Some None, r => r
                  | r, Some None => r
                  | Some (Some l1), Some (Some l2) => if lockset_eqb l1 l2 then Some (Some l1) else None
                  | _, _ => None
                  end
  | Loop body => match check ls body with
                 | Some None => Some (Some ls)
                 | Some (Some l1) => if lockset_eqb l1 ls then Some (Some ls) else None
                 | None => None
                 end
  | Acq m md => match held m ls with None => Some (Some ((m, md) :: ls)) | Some _ => None end
  | Rel m => match held m ls with Some _ => Some (Some (drop m ls)) | None => None end
  | Rd f => match held (guard f) ls with Some _ => Some (Some ls) | None => None end
  | Wr f => match held (guard f) ls with Some Ex => Some (Some ls) | _ => None end
  | Return => match ls with [] => Some None | _ => None end
  end.

Definition well_locked (s : stmt) : bool :=
  match check [] s with Some None => true | Some (Some []) => true | _ => false end.

End Sem.
