From Coq Require Import List Arith Bool.
Import ListNotations.

Definition bid := nat. Definition code := nat. Definition conn := nat.

Inductive thread :=
| TSession (b : bid) (c : code) (pc : nat)          (* 0 IsDenied; 1 Allow; 2 Submit; 3 done(200); 9 refused *)
| TDeny (b : bid) (pc : nat)                         (* 0 Deny; 1 Purge; 2 Notify; 3 done *)
| TAllow (b : bid) (pc : nat)                        (* 0 Allow; 1 done *)
| TWs (c : code) (k : conn) (pc : nat) (tok : option bid). (* 0 Exchange; 1 IsDenied; 2 register; 3 hub records channel; 4 done; 9 refused *)

Record sys := { deny : list bid; allow : list bid; codes : list (code * bid);
                chm : list (bid * conn); closed : list conn; members : list (conn * bid);
                q : list bid; threads : list thread }.

Definition mem (b : nat) (l : list nat) : bool := existsb (Nat.eqb b) l.
Definition rm (b : bid) (l : list bid) := filter (fun x => negb (Nat.eqb x b)) l.
Fixpoint lookup (c : code) (l : list (code * bid)) : option bid :=
  match l with [] => None | (c', b) :: r => if Nat.eqb c c' then Some b else lookup c r end.

Fixpoint upd {A} (l : list A) (i : nat) (x : A) : list A :=
  match l, i with [], _ => [] | _ :: r, O => x :: r | y :: r, S j => y :: upd r j x end.

Definition set_threads (s : sys) (ts : list thread) : sys :=
  {| deny := deny s; allow := allow s; codes := codes s; chm := chm s; closed := closed s;
     members := members s; q := q s; threads := ts |}.

(* one atomic step of thread i; None if the thread is finished / index invalid *)
Definition tstep (s : sys) (i : nat) : option sys :=
  match nth_error (threads s) i with
  | None => None
  | Some t =>
    let put t' s' := Some (set_threads s' (upd (threads s) i t')) in
    match t with
    | TSession b c 0 => if mem b (deny s) then put (TSession b c 9) s else put (TSession b c 1) s
    | TSession b c 1 => put (TSession b c 2)
        {| deny := rm b (deny s); allow := b :: rm b (allow s); codes := codes s; chm := chm s; closed := closed s;
           members := members s; q := q s; threads := threads s |}
    | TSession b c 2 => put (TSession b c 3)
        {| deny := deny s; allow := allow s; codes := (c, b) :: codes s; chm := chm s; closed := closed s;
           members := members s; q := q s; threads := threads s |}
    | TDeny b 0 => put (TDeny b 1)
        {| deny := b :: rm b (deny s); allow := rm b (allow s); codes := codes s; chm := chm s; closed := closed s;
           members := members s; q := q s; threads := threads s |}
    | TDeny b 1 => put (TDeny b 2)
        {| deny := deny s; allow := allow s; codes := filter (fun '(_, b') => negb (Nat.eqb b' b)) (codes s);
           chm := chm s; closed := closed s; members := members s; q := q s; threads := threads s |}
    | TDeny b 2 => put (TDeny b 3)
        {| deny := deny s; allow := allow s; codes := codes s; chm := chm s; closed := closed s;
           members := members s; q := q s ++ [b]; threads := threads s |}
    | TAllow b 0 => put (TAllow b 1)
        {| deny := rm b (deny s); allow := b :: rm b (allow s); codes := codes s; chm := chm s; closed := closed s;
           members := members s; q := q s; threads := threads s |}
    | TWs c k 0 _ => match lookup c (codes s) with
                     | None => put (TWs c k 9 None) s
                     | Some b => put (TWs c k 1 (Some b))
                         {| deny := deny s; allow := allow s; codes := filter (fun '(c', _) => negb (Nat.eqb c' c)) (codes s);
                            chm := chm s; closed := closed s; members := members s; q := q s; threads := threads s |}
                     end
    | TWs c k 1 (Some b) => if mem b (deny s) then put (TWs c k 9 (Some b)) s else put (TWs c k 2 (Some b)) s
    | TWs c k 2 (Some b) => put (TWs c k 3 (Some b))
        {| deny := deny s; allow := allow s; codes := codes s; chm := chm s; closed := closed s;
           members := (k, b) :: members s; q := q s; threads := threads s |}
    | TWs c k 3 (Some b) => put (TWs c k 4 (Some b))
        {| deny := deny s; allow := allow s; codes := codes s; chm := (b, k) :: chm s; closed := closed s;
           members := members s; q := q s; threads := threads s |}
    | _ => None
    end
  end.

(* the crossbar's deny loop: one notification *)
Definition denyloop (s : sys) : option sys :=
  match q s with
  | [] => None
  | b :: r => Some {| deny := deny s; allow := allow s; codes := codes s;
                      chm := filter (fun '(b', _) => negb (Nat.eqb b' b)) (chm s);
                      closed := map snd (filter (fun '(b', _) => Nat.eqb b' b) (chm s)) ++ closed s;
                      members := members s; q := r; threads := threads s |}
  end.

Inductive who := T (i : nat) | L.
Fixpoint run (sched : list who) (s : sys) : option sys :=
  match sched with
  | [] => Some s
  | T i :: r => match tstep s i with Some s' => run r s' | None => None end
  | L :: r => match denyloop s with Some s' => run r s' | None => None end
  end.

Definition finished (t : thread) : bool :=
  match t with TSession _ _ pc | TDeny _ pc => (3 <=? pc) | TAllow _ pc => (1 <=? pc) | TWs _ _ pc _ => (4 <=? pc) end.
Definition quiescent (s : sys) : bool := forallb finished (threads s) && match q s with [] => true | _ => false end.
Definition live (s : sys) (b : bid) : list conn :=
  map fst (filter (fun '(k, b') => Nat.eqb b' b && negb (mem k (closed s))) (members s)).
Definition has_allow_req (s : sys) (b : bid) : bool :=
  existsb (fun t => match t with TAllow b' _ => Nat.eqb b b' | _ => false end) (threads s).

Definition init ts cs := {| deny := []; allow := []; codes := cs; chm := []; closed := []; members := []; q := []; threads := ts |}.

(* F3: the deny of booking 1 is acknowledged, nobody asked for an allow, yet booking 1 is off the deny list *)
Example deny_sticks_refuted :
  exists sched, match run sched (init [TSession 1 7 0; TDeny 1 0] []) with
                | Some s => quiescent s = true /\ has_allow_req s 1 = false /\ mem 1 (deny s) = false
                            /\ lookup 7 (codes s) = Some 1
                | None => False end.
Proof. exists [T 0; T 1; T 1; T 1; L; T 0; T 0]. vm_compute. repeat split. Qed.

(* F4: quiescent, booking 1 denied, yet connection 5 of booking 1 is live *)
Example deny_closes_all_refuted :
  exists sched, match run sched (init [TWs 7 5 0 None; TDeny 1 0] [(7, 1)]) with
                | Some s => quiescent s = true /\ mem 1 (deny s) = true /\ live s 1 = [5]
                | None => False end.
Proof. exists [T 0; T 0; T 1; T 1; T 1; L; T 0; T 0]. vm_compute. repeat split. Qed.
