#!/bin/bash
# Build the framework from files on disk only (offline): all Coq theories, translator, harness binaries (warms the Go build cache).
set -e
cd "$(dirname "$0")"
export GOFLAGS=-mod=mod GOPROXY=off GOSUMDB=off GOTOOLCHAIN=local
./coq/build.sh
cp /repo/go.sum harness/go.sum
if [ -d translator ]; then (cd translator && go build -o bin/translator . ) ; fi
for d in harness/cmd/*/; do
  n=$(basename "$d")
  (cd harness && go build -tags verif -o bin/$n ./cmd/$n) || echo "warning: harness $n did not build in setup (the check itself rebuilds it)"
done
echo setup done
