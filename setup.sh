#!/bin/bash
# Build the framework from files on disk only (offline): translators (regenerate coq/Gen from /repo), all Coq
# theories (full .vo build), harness binaries (warms the Go build cache). Each check rebuilds what it needs anyway.
cd "$(dirname "$0")"
export GOFLAGS=-mod=mod GOPROXY=off GOSUMDB=off GOTOOLCHAIN=local
mkdir -p translator/bin coq/Gen work replays evidence
for d in translator/*/; do
  n=$(basename "$d"); [ "$n" = bin ] && continue
  [ -f "$d/main.go" ] || continue
  (cd "$d" && go build -o ../bin/$n . && ../bin/$n -repo "${VERIF_REPO:-/repo}" -out ../../coq/Gen) || echo "warning: translator $n failed in setup"
done
./coq/build.sh -k || echo "warning: some Coq files did not build in setup (each check rebuilds its own targets and reports)"
cp "${VERIF_REPO:-/repo}/go.sum" harness/go.sum
for d in harness/cmd/*/; do
  n=$(basename "$d")
  (cd harness && go build -tags verif -o bin/$n ./cmd/$n) || echo "warning: harness $n did not build in setup (the check itself rebuilds it)"
done
echo setup done
exit 0
