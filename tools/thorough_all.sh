#!/bin/bash
# run the thorough tier of every claimed property once (after building the framework), one line per property
cd "$(dirname "$0")/.."
./setup.sh > /dev/null 2>&1
for c in $(python3 -c "import json; print(' '.join(x['property_id'] for x in json.load(open('MANIFEST.json'))['checks']))"); do
  out=$(./check $c --tier thorough 2>&1)
  echo "$(echo "$out" | grep -E '^(OK|FAIL)' | tail -1)"
  echo "$out" | grep -E '^(VIOLATION|INTERNAL)' | head -3
  echo "$out" | grep -A1 '^VIOLATION' | grep '^  ' | head -2
done
