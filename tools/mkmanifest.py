#!/usr/bin/env python3
"""Assemble MANIFEST.json from checks/*.json (one file per claimed property)."""
import json, glob, os
ROOT = os.path.dirname(os.path.dirname(os.path.abspath(__file__)))
props = [json.loads(l) for l in open(os.path.join(ROOT, "properties.jsonl"))]
checks, claimed = [], set()
for f in sorted(glob.glob(os.path.join(ROOT, "checks", "C*.json"))):
    c = json.load(open(f))
    if c.get("disabled"):
        continue
    m = c.get("manifest", {})
    pid = c["id"]
    claimed.add(pid)
    checks.append({
        "property_id": pid,
        "quick_cmd": "./check %s --tier quick" % pid,
        "thorough_cmd": "./check %s --tier thorough" % pid,
        "evidence_file": "/verif/evidence/%s.json" % pid,
        "replay_cmd_template": "./check %s --replay {path}" % pid,
        "engine": "coq-proof+correspondence",
        "level_claimed": {"category": c.get("level", "proof"), "text": m.get("level_text", ""), "design_ref": m.get("design_ref", "DESIGN.md section 4, " + pid)},
        "level_note": m.get("level_note", ""),
        "technique": m.get("technique", "machine-checked proof in Coq 8.16 about an executable Gallina model, tied to the code by an in-Coq correspondence run"),
    })
na_file = os.path.join(ROOT, "checks", "not_applicable.json")
na_reasons = json.load(open(na_file)) if os.path.exists(na_file) else {}
na = [{"property_id": p["id"], "reason": na_reasons.get(p["id"], "check not built yet at this commit (planned: DESIGN.md section 4); nothing is claimed for it")}
      for p in props if p["id"] not in claimed]
man = {
    "version": 1,
    "setup_cmd": "./setup.sh",
    "hooks": {
        "guard": "verif",
        "enable": "go build -tags verif (the driver ./check builds the harness with -tags verif and, for in-package accessors, go build -overlay from /verif/harness/overlay)",
        "baseline_off_cmd": "cd /repo && GOFLAGS=-mod=mod GOPROXY=off GOSUMDB=off go test -vet=off -count=1 -timeout 25m ./...",
        "source_commits": json.load(open(os.path.join(ROOT, "checks", "hook_commits.json"))) if os.path.exists(os.path.join(ROOT, "checks", "hook_commits.json")) else [],
        "add_only": True,
    },
    "engines": [{"name": "coq-proof+correspondence", "path": "/verif/check", "serves_properties": sorted(claimed),
                 "kind_free_text": "Coq 8.16 theorems over hand-written Gallina models (coq/Model, coq/Proofs, coq/Props) + Go harness (harness/cmd/*) that runs the real code and has Coq evaluate the model on the same cases (coq/Corr, vm_compute); translator-generated IR for lock discipline / loop shapes"}],
    "checks": checks,
    "notes": "One driver (./check <id>) per property; see DESIGN.md. Evidence is rewritten by every run. known_findings.json lists genuine defects recorded rather than repaired.",
    "not_applicable": na,
}
json.dump(man, open(os.path.join(ROOT, "MANIFEST.json"), "w"), indent=1)
print("MANIFEST.json: %d checks, %d not_applicable" % (len(checks), len(na)))
