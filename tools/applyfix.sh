#!/bin/bash
# usage: tools/applyfix.sh <basename in /verif/fixes without extension> : apply to /repo, build, test touched packages
# against the baseline's stable_pass list (unedited tests), commit with the delivered message
set -e
export GOFLAGS=-mod=mod GOPROXY=off GOSUMDB=off GOTOOLCHAIN=local
b=/verif/fixes/$1
cd /repo
git apply --check $b.patch
git apply $b.patch
go build ./... && go build -tags verif ./...
pk=$(git diff --name-only | xargs -n1 dirname | sort -u | sed 's|^|./|')
echo "testing $pk"
go test -vet=off -count=1 -timeout 10m -json $pk > /tmp/applyfix.json 2>/dev/null || true
if python3 - <<'PY'
import json,sys
base=set(json.load(open('/root/.vp/BASELINE.json'))['stable_pass'])
res={}
pk=set()
for l in open('/tmp/applyfix.json'):
    try: e=json.loads(l)
    except: continue
    if e.get('Package'): pk.add(e['Package'])
    if e.get('Action') in('pass','fail') and e.get('Test'): res[e['Package']+'::'+e['Test']]=e['Action']
bad=[t for t in base if t.split('::')[0] in pk and res.get(t)!='pass']
print('baseline tests of touched packages: %d, not passing: %s' % (len([t for t in base if t.split('::')[0] in pk]), bad))
sys.exit(1 if bad else 0)
PY
then git commit -qa -F $b.msg && git log --oneline | head -1
else echo "BASELINE TESTS FAILED - reverting"; git checkout -- .; exit 1
fi
