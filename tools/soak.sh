#!/bin/bash
# usage: tools/soak.sh "<seeds>" "<checks>" : run the quick tier of each check for each seed, print one line per run
cd "$(dirname "$0")/.."
for s in $1; do for c in $2; do
  out=$(VERIF_SEED=$s ./check $c 2>&1)
  echo "seed=$s $(echo "$out" | grep -E '^(OK|FAIL)' | tail -1)"
  echo "$out" | grep -E '^(VIOLATION|INTERNAL)' | head -3
  echo "$out" | grep -A1 '^VIOLATION' | grep '^  ' | head -2
done; done
