#!/usr/bin/env python3
"""Print the markdown table of seeded changes (DESIGN.md section 9) from seeded/*/meta.json + confirm.json."""
import json, glob, os
rows = []
for d in sorted(glob.glob("/verif/seeded/*/")):
    m = json.load(open(d + "meta.json")) if os.path.exists(d + "meta.json") else {}
    c = json.load(open(d + "confirm.json")) if os.path.exists(d + "confirm.json") else {}
    name = os.path.basename(d.rstrip("/"))
    det = []
    for k, v in (c.get("checks") or {}).items():
        if v.get("violations"):
            first = v.get("first", "")
            wi = v.get("with_input")
            if wi is None:
                wi = 0 if "no-failing-input-found" in first else v["violations"]
            clause = "failing input" if wi > 0 else "no-failing-input-found"
            det.append("%s (%d, %s)" % (k, v["violations"], clause))
        else:
            det.append("%s: MISSED" % k)
    ok = c.get("demo_without_change") == "pass" and c.get("demo_with_change") == "FAIL" and not c.get("baseline_tests_failing")
    rows.append("| %s | %s | %s | %s | %s |" % (name, (m.get("summary") or "")[:160].replace("|", "/"), (m.get("needs") or "")[:140].replace("|", "/"),
                                            "yes" if ok else "NOT CONFIRMED", "; ".join(det)))
print("| seed | change | needs | confirmed (demo fails with / passes without, suite green) | checks run -> result |")
print("|---|---|---|---|---|")
print("\n".join(rows))
