#!/usr/bin/env python3
"""Regenerate the generated sections of DESIGN.md (section 9: seeded changes; section 10: trusted base as built)
between the markers <!-- GEN:NAME --> and <!-- /GEN:NAME -->."""
import json, glob, os, subprocess, re
ROOT = os.path.dirname(os.path.dirname(os.path.abspath(__file__)))
def seeds():
    return subprocess.check_output(["python3", os.path.join(ROOT, "tools", "seedtable.py")], text=True)
def trusted():
    out = []
    for f in sorted(glob.glob(os.path.join(ROOT, "checks", "C*.json"))):
        c = json.load(open(f))
        ev = os.path.join(ROOT, "evidence", c["id"] + ".json")
        ax = "?"
        if os.path.exists(ev):
            tb = json.load(open(ev))["coverage"].get("trusted_base", [])
            ax = next((t for t in tb if t.startswith("axioms")), "?")
        out.append("* **%s** — %s. %s%s" % (c["id"], ax,
                   ("Assumptions: " + "; ".join(c.get("assumptions", [])) + ". ") if c.get("assumptions") else "",
                   ("Also trusted: " + "; ".join(c.get("trusted_base_extra", [])) + ".") if c.get("trusted_base_extra") else ""))
    return "\n".join(out) + "\n"
def clauses():
    out = []
    props = {}
    for l in open(os.path.join(ROOT, "properties.jsonl")):
        q = json.loads(l); props[q["id"]] = q
    for f in sorted(glob.glob(os.path.join(ROOT, "checks", "C*.json"))):
        c = json.load(open(f))
        m = c.get("clause_map")
        out.append("### %s — %s\n" % (c["id"], props.get(c["id"], {}).get("title", "")))
        if not m:
            out.append("(no clause map recorded yet)\n"); continue
        out.append("| clause of the statement | how decided | theorems (coq/Props/%s.v) | note |" % c["id"])
        out.append("|---|---|---|---|")
        for r in m:
            out.append("| %s | %s | %s | %s |" % (r.get("clause", "").replace("|", "/"), r.get("how", ""),
                       ", ".join("`%s`" % t if not t.startswith("(") else t for t in r.get("theorems", [])) or "-", (r.get("note") or "").replace("|", "/")))
        out.append("")
    return "\n".join(out) + "\n"
gens = {"SEEDS": seeds, "TRUSTED": trusted, "CLAUSES": clauses}
p = os.path.join(ROOT, "DESIGN.md")
s = open(p).read()
for name, fn in gens.items():
    a, b = "<!-- GEN:%s -->" % name, "<!-- /GEN:%s -->" % name
    if a in s and b in s:
        s = s[:s.index(a) + len(a)] + "\n" + fn() + s[s.index(b):]
open(p, "w").write(s)
print("DESIGN.md regenerated")
