#!/usr/bin/env python3
"""tools/seedtest.py <seed dir> [check ids...]
Confirm a seeded change (patch.diff + demo/RUN.txt + meta.json) in a scratch worktree and run checks against it.
Steps: reset worktree to /repo HEAD; demo must PASS; apply patch; go build (+ -tags verif); package tests of the
touched packages must pass on the baseline's stable list; demo must FAIL; run the checks (VERIF_REPO=worktree) and
record which report a VIOLATION; reset the worktree. Writes <seed dir>/confirm.json."""
import sys, os, json, subprocess, shutil, re, time
WT = os.environ.get("SEED_WT", "/tmp/wt-lead")
TJ = "/tmp/seedtest-%s.json" % os.path.basename(WT)
ENV = dict(os.environ, GOFLAGS="-mod=mod", GOPROXY="off", GOSUMDB="off", GOTOOLCHAIN="local")
def sh(cmd, cwd=None, timeout=1800, env=ENV):
    p = subprocess.run(cmd, shell=True, cwd=cwd, env=env, stdout=subprocess.PIPE, stderr=subprocess.STDOUT, text=True, timeout=timeout)
    return p.returncode, p.stdout
def reset():
    head = subprocess.check_output("git -C /repo rev-parse HEAD", shell=True, text=True).strip()
    sh("git checkout -q --detach %s && git checkout -q -- . && git clean -fdq" % head, cwd=WT)
d = os.path.abspath(sys.argv[1]); checks = sys.argv[2:]
meta = json.load(open(os.path.join(d, "meta.json")))
if not checks: checks = [meta["property"]]
out = {"at": time.strftime("%F %T"), "repo_head": subprocess.check_output("git -C /repo rev-parse --short HEAD", shell=True, text=True).strip()}
if not os.path.exists(WT): sh("git -C /repo worktree add --detach %s HEAD" % WT)
reset()
lines = [l for l in open(os.path.join(d, "demo", "RUN.txt")).read().replace("\\\n", " ").splitlines() if l.strip() and not l.strip().startswith("#")]
lines = [re.sub(r"/tmp/mut\d*-C\d+-out/m\d+(/demo)?|<this dir>", lambda m: d + "/demo" if (m.group(0) == "<this dir>" or m.group(1)) else d, l) for l in lines if not re.match(r"\s*(git apply|cd /tmp/mut|git -C)", l)]
run = "set -e; " + "; ".join(lines)
def put_demo():
    if any(l.strip().startswith("cp ") for l in lines):
        return  # RUN.txt places the demo files itself
    for root, _, files in os.walk(os.path.join(d, "demo")):
        for f in files:
            if not f.endswith(".go"): continue
            rel = os.path.relpath(os.path.join(root, f), os.path.join(d, "demo"))
            dst = os.path.join(WT, rel)
            if os.sep not in rel:
                m = re.search(r"\./(internal|pkg|cmd)/[\w/]+", run)
                dst = os.path.join(WT, m.group(0)[2:].rstrip("/"), f) if m and f.endswith("_test.go") else os.path.join(WT, f)
            os.makedirs(os.path.dirname(dst), exist_ok=True); shutil.copy(os.path.join(root, f), dst)
put_demo()
rc, o = sh(run, cwd=WT, timeout=900); out["demo_without_change"] = "pass" if rc == 0 else "FAIL"; out["demo_without_tail"] = o[-400:]
rc, o = sh("git apply %s" % os.path.join(d, "patch.diff"), cwd=WT); out["applies"] = rc == 0
if rc == 0:
    rc, o = sh("go build ./... && go build -tags verif ./...", cwd=WT); out["builds"] = rc == 0
    rc, o = sh(run, cwd=WT, timeout=900); out["demo_with_change"] = "FAIL" if rc != 0 else "pass"; out["demo_with_tail"] = o[-600:]
    # existing tests of touched packages + the core dependants
    for root, _, files in os.walk(WT):
        for f in files:
            if f.startswith("zz_") : os.remove(os.path.join(root, f))
    pk = subprocess.check_output("git diff --name-only | xargs -n1 dirname | sort -u", shell=True, cwd=WT, text=True).split()
    pk = sorted(set(["./" + p for p in pk if os.path.isdir(os.path.join(WT, p))]))
    rc, o = sh("go test -vet=off -count=1 -timeout 10m -json %s > %s" % (" ".join(pk), TJ), cwd=WT)
    base = set(json.load(open("/root/.vp/BASELINE.json"))["stable_pass"]); res = {}; pks = set()
    for l in open(TJ):
        try: e = json.loads(l)
        except Exception: continue
        if e.get("Package"): pks.add(e["Package"])
        if e.get("Action") in ("pass", "fail") and e.get("Test"): res[e["Package"] + "::" + e["Test"]] = e["Action"]
    out["tests_packages"] = pk; out["baseline_tests_failing"] = [t for t in base if t.split("::")[0] in pks and res.get(t) != "pass"]
    out["other_tests_failing"] = [t for t, v in res.items() if v == "fail" and t not in base and not t.endswith("TestHandleTsFrameBoundaries") and not t.endswith("TestConditionCheckLines")]
    det = {}
    for c in checks:
        rc, o = sh("./check %s" % c, cwd="/verif", env=dict(ENV, VERIF_REPO=WT), timeout=1500)
        v = [l for l in o.splitlines() if l.startswith("VIOLATION")]
        det[c] = dict(exit=rc, violations=len(v), with_input=len([l for l in v if "no-failing-input-found" not in l]), first=(v[0] if v else ""), detail=[l for l in o.splitlines() if l.startswith("  ")][:2], summary=o.splitlines()[-1] if o else "")
    out["checks"] = det
reset()
json.dump(out, open(os.path.join(d, "confirm.json"), "w"), indent=1)
print(json.dumps({k: out[k] for k in out if k not in ("demo_without_tail", "demo_with_tail")}, indent=1))
